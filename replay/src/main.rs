//! Replays concrete inputs against the REAL typeshare crates (path dependencies on /repo) — used for known-finding
//! witnesses and for end-to-end replays of counterexamples.  It never decides a property.
#[allow(dead_code)]
#[path = "../../vendor/serde_derive-1.0.214/case.rs"]
mod case;

use std::panic;
use typeshare_core::context::{ParseContext, ParseFileContext};
use typeshare_core::language::CrateName;
use typeshare_core::parser::{parse, ParsedData};

fn parse_src(src: &str) -> Option<ParsedData> {
    let ctx = ParseContext::default();
    parse(
        &ctx,
        ParseFileContext {
            source_code: src.to_string(),
            crate_name: CrateName::from("c".to_string()),
            file_name: "f.rs".into(),
            file_path: "f.rs".into(),
        },
    )
    .ok()
    .flatten()
}

/// typeshare's name for `ident` in field / variant position under `rule`, through the public parser
fn typeshare_rename(rule: &str, pos: &str, ident: &str) -> Result<String, String> {
    let src = if pos == "field" {
        format!("#[typeshare]\n#[serde(rename_all = \"{rule}\")]\nstruct S {{ {ident}: u8 }}\n")
    } else {
        format!("#[typeshare]\n#[serde(rename_all = \"{rule}\")]\nenum E {{ {ident} }}\n")
    };
    let r = panic::catch_unwind(|| parse_src(&src));
    match r {
        Err(_) => Err("typeshare panicked".into()),
        Ok(None) => Err("typeshare produced no data (parse error)".into()),
        Ok(Some(d)) => {
            if pos == "field" {
                d.structs.first().and_then(|s| s.fields.first()).map(|f| f.id.renamed.clone()).ok_or("no field".into())
            } else {
                d.enums.first().and_then(|e| e.shared().variants.first().map(|v| v.shared().id.renamed.clone())).ok_or("no variant".into())
            }
        }
    }
}

fn serde_rename(rule: &str, pos: &str, ident: &str) -> Result<String, String> {
    let ident = ident.strip_prefix("r#").unwrap_or(ident).to_string();
    let rule = match case::RenameRule::from_str(rule) { Ok(r) => r, Err(_) => return Ok(ident) };
    let pos = pos.to_string();
    panic::catch_unwind(move || if pos == "field" { rule.apply_to_field(&ident) } else { rule.apply_to_variant(&ident) })
        .map_err(|_| "serde_derive's case.rs panicked (rustc would reject the derive)".to_string())
}

fn parse_named(src: &str, file_name: &str) -> Option<ParsedData> {
    let ctx = ParseContext::default();
    parse(&ctx, ParseFileContext { source_code: src.to_string(), crate_name: CrateName::from("c".to_string()),
        file_name: file_name.into(), file_path: file_name.into() }).ok().flatten()
}

/// Fold per-file results in the given order exactly as cli/src/parse.rs's collector does (`*entry.or_default() += data`),
/// reconcile, and generate TypeScript: returns the output bytes.
fn fold_and_generate(files: &[(String, String)], order: &[usize]) -> Result<String, String> {
    use std::collections::{BTreeMap, HashMap};
    use typeshare_core::language::{Language, TypeScript};
    let mut crates: BTreeMap<CrateName, ParsedData> = BTreeMap::new();
    for &i in order {
        let (name, src) = &files[i];
        if let Some(d) = parse_named(src, name) {
            let cn = d.crate_name.clone();
            *crates.entry(cn).or_default() += d;
        }
    }
    typeshare_core::reconcile::reconcile_aliases(&mut crates);
    let mut out: Vec<u8> = Vec::new();
    for (_, data) in crates {
        let mut lang = TypeScript { no_version_header: true, ..Default::default() };
        lang.generate_types(&mut out, &HashMap::new(), data).map_err(|e| e.to_string())?;
    }
    String::from_utf8(out).map_err(|e| e.to_string())
}

/// like fold_and_generate, but over in-memory sources, also returning the number of recorded parse errors
fn fold_mem(files: &[String], order: &[usize]) -> Result<(String, usize), String> {
    use std::collections::{BTreeMap, HashMap};
    use typeshare_core::language::{Language, TypeScript};
    let mut crates: BTreeMap<CrateName, ParsedData> = BTreeMap::new();
    for &i in order {
        if let Some(d) = parse_named(&files[i], &format!("f{}.rs", i)) {
            let cn = d.crate_name.clone();
            *crates.entry(cn).or_default() += d;
        }
    }
    typeshare_core::reconcile::reconcile_aliases(&mut crates);
    let mut out: Vec<u8> = Vec::new();
    let mut nerr = 0;
    for (_, data) in crates {
        nerr += data.errors.len();
        let mut lang = TypeScript { no_version_header: true, ..Default::default() };
        lang.generate_types(&mut out, &HashMap::new(), data).map_err(|e| e.to_string())?;
    }
    Ok((String::from_utf8(out).map_err(|e| e.to_string())?, nerr))
}

const CORPUS: [(&str, &str, bool); 17] = [
    ("InModule", "pub mod outer { pub mod inner {\n#[typeshare]\npub struct InModule { pub m: u32 }\n} }\n", true),
    ("InConstBlock", "const _: () = {\n    #[typeshare]\n    pub struct InConstBlock { pub c: u32 }\n};\n", true),
    ("InFnBody", "pub fn helper() {\n    #[typeshare]\n    struct InFnBody { f: u32 }\n}\n", true),
    ("UserId", "#[typeshare]\npub struct UserId { pub v: u32 }\n", true),
    ("UserID", "#[typeshare]\npub struct UserID { pub w: String }\n", true),
    ("Qualified", "#[typeshare::typeshare]\npub struct Qualified { pub q: u32 }\n", true),
    ("Event", "#[typeshare]\n#[serde(tag = \"type\", content = \"content\")]\npub enum Event { Started { at: u32 }, Stopped {}, Heartbeat { #[serde(skip)] seq: u32 } }\n", true),
    ("AuthenticationRequest", "#[typeshare]\npub struct AuthenticationRequest { pub a: u32 }\n", true),
    ("AuthenticationResponse", "#[typeshare]\npub struct AuthenticationResponse { pub r: AuthenticationRequest }\n", true),
    ("Zed", "#[typeshare]\npub struct Zed { pub a: u32 }\n", true),
    ("Kind", "#[typeshare]\npub enum Kind { A, B }\n", true),
    ("KindOfThingWithAVeryLongSharedPrefixOne", "#[typeshare]\npub enum KindOfThingWithAVeryLongSharedPrefixOne { A }\n", true),
    ("KindOfThingWithAVeryLongSharedPrefixTwo", "#[typeshare]\npub enum KindOfThingWithAVeryLongSharedPrefixTwo { B }\n", true),
    ("Al", "#[typeshare]\npub type Al = Vec<Zed>;\n", true),
    ("ALPHA", "#[typeshare]\npub const ALPHA: u32 = 1;\n", true),
    ("BETA", "#[typeshare]\npub const BETA: u32 = 2;\n", true),
    ("Unrepresentable", "#[typeshare]\npub struct Unrepresentable { pub x: u64 }\n", false),
];
fn kotlin_helpers(files: &[String], order: &[usize]) -> Option<String> {
    use std::collections::{BTreeMap, HashMap};
    use typeshare_core::language::{Kotlin, Language};
    let mut crates: BTreeMap<CrateName, ParsedData> = BTreeMap::new();
    for &i in order { if let Some(d) = parse_named(&files[i], &format!("f{}.rs", i)) { let cn = d.crate_name.clone(); *crates.entry(cn).or_default() += d; } }
    typeshare_core::reconcile::reconcile_aliases(&mut crates);
    let mut out: Vec<u8> = Vec::new();
    for (_, mut data) in crates {
        data.consts.clear(); // Kotlin has no const support (todo!()): seen-but-undecided, not part of this check
        let mut lang = Kotlin { package: "p".into(), no_version_header: true, ..Default::default() };
        if let Err(e) = lang.generate_types(&mut out, &HashMap::new(), data) { return Some(format!("kotlin generation failed: {}", e)); }
    }
    let out = String::from_utf8(out).unwrap();
    for v in ["Started", "Stopped", "Heartbeat"] {
        let helper = format!("Event{}Inner", v);
        let uses = out.matches(&format!("val content: {}", helper)).count();
        let defs = out.matches(&format!("class {} ", helper)).count() + out.matches(&format!("object {}\n", helper)).count();
        if uses != 1 || defs != 1 { return Some(format!("Kotlin: helper type {} is used {} time(s) and defined {} time(s) (C03: one helper per struct variant, defined exactly once)", helper, uses, defs)); }
    }
    None
}
const NFILES: usize = 3;
/// distribution k assigns corpus item i to file ((i * (k + 1) + k) % NFILES), reversed inside the file for odd k
fn distribution(k: usize) -> Vec<String> {
    let mut files = vec![String::new(); NFILES];
    let idx: Vec<usize> = if k % 2 == 1 { (0..CORPUS.len()).rev().collect() } else { (0..CORPUS.len()).collect() };
    if k >= 6 {
        // one item alone in its own file (k = 6: the path-qualified attribute, k = 7: the unsupported item), the rest over the other two
        let alone = if k == 6 { CORPUS.iter().position(|c| c.0 == "Qualified").unwrap() } else { CORPUS.len() - 1 };
        for i in idx { if i == alone { files[2].push_str(CORPUS[i].1); } else { files[i % 2].push_str(CORPUS[i].1); } }
        return files;
    }
    for i in idx { files[(i * (k + 1) + k) % NFILES].push_str(CORPUS[i].1); }
    files
}
fn defs(out: &str, name: &str) -> usize {
    ["interface ", "enum ", "type ", "const "].iter().map(|kw| out.matches(&format!("export {}{} ", kw, name)).count() + out.matches(&format!("export {}{}:", kw, name)).count()).sum()
}
/// C06 + C03 on one (distribution, arrival order): -> Some(description) when violated
fn merge_case(k: usize, order: &[usize]) -> Option<String> {
    // the search serves C03 / C11 (every definition exactly once, unsupported items reported) and C06 (bytes independent of arrival order and
    // of the split across files); when the check says which property it decides (VERIF_PID) only that property's comparisons are made
    let pid = std::env::var("VERIF_PID").unwrap_or_default();
    let (want_conserve, want_determ) = (pid != "C06", pid != "C03" && pid != "C11");
    let files = distribution(k);
    let base = match fold_mem(&files, &[0, 1, 2]) { Ok(b) => b, Err(e) => return Some(format!("generation failed: {}", e)) };
    let f2 = files.clone(); let o2 = order.to_vec();
    let got = match panic::catch_unwind(move || fold_mem(&f2, &o2)) { Ok(Ok(g)) => g, Ok(Err(e)) => return Some(format!("generation failed: {}", e)), Err(_) => return Some("panicked".into()) };
    if want_conserve {
        for (name, _, good) in CORPUS.iter() {
            let n = defs(&got.0, name);
            if *good && n != 1 { return Some(format!("definition {} appears {} times in the output (C03/C11: exactly once)", name, n)); }
            if !*good && n != 0 { return Some(format!("unsupported item {} was generated (C03)", name)); }
        }
        if got.1 != 1 { return Some(format!("{} parse errors recorded after the merge, expected exactly 1 (C03: the unsupported item must be reported, not silently omitted)", got.1)); }
        // C03: every helper type a back end derives from a struct variant is defined exactly once (Kotlin)
        if let Some(m) = kotlin_helpers(&files, order) { return Some(m); }
    }
    if want_determ {
        // C06: the same items split differently across files must give the same single-file output
        let base0 = match fold_mem(&distribution(0), &[0, 1, 2]) { Ok(b) => b, Err(e) => return Some(format!("generation failed: {}", e)) };
        if base.0 != base0.0 { return Some(format!("single-file output depends on how the items are split across files: distribution {} vs distribution 0 differ (C06)", k)); }
        if got.0 != base.0 { return Some(format!("output bytes differ from arrival order [0,1,2] (C06): {:?} vs {:?}", &got.0.chars().take(200).collect::<String>(), &base.0.chars().take(200).collect::<String>())); }
    }
    None
}

// ---------------------------------------------------------------- C06: import lines of one-module-per-crate output
/// (crate, file, source): two library crates with a same-named type, an application crate whose files define a type of their own,
/// import a same-named one, import `Shared` from either library, and combine a wildcard with an explicit import
const IMPORT_FILES: [(&str, &str, &str); 8] = [
    ("lib_a", "a.rs", "#[typeshare]\npub struct Shared { pub a: u32 }\n#[typeshare]\npub struct Dup { pub d: u32 }\n"),
    ("lib_b", "b.rs", "#[typeshare]\npub struct Shared { pub b: u32 }\n"),
    ("lib_c", "c.rs", "#[typeshare]\npub struct Extra1 { pub e: u32 }\n#[typeshare]\npub struct Extra2 { pub e: u32 }\n"),
    ("app", "own.rs", "#[typeshare]\npub struct Dup { pub own: u32 }\n#[typeshare]\npub struct OwnUser { pub d: Dup }\n"),
    ("app", "imp.rs", "use lib_a::Dup;\n#[typeshare]\npub struct UsesDup { pub d: Dup }\n"),
    ("app", "s1.rs", "use lib_a::Shared;\n#[typeshare]\npub struct X { pub s: Shared }\n"),
    ("app", "s2.rs", "use lib_b::Shared;\n#[typeshare]\npub struct Y { pub s: Shared }\n"),
    ("app", "wild.rs", "use lib_c::*;\nuse lib_c::Extra1;\n#[typeshare]\npub struct W { pub e: Extra1, pub f: Extra2 }\n"),
];
/// fold the files in `order` as the CLI's collector does (multi-file mode), reconcile, collect the import candidates as
/// cli/src/parse.rs all_types does, and generate one module per crate; lang 0 TypeScript, 1 Kotlin
fn imports_generate(order: &[usize], lang: usize) -> Result<String, String> {
    use std::collections::{BTreeMap, HashMap};
    use typeshare_core::language::{CrateTypes, Kotlin, Language, TypeScript};
    let ctx = ParseContext { multi_file: true, ..Default::default() };
    let mut crates: BTreeMap<CrateName, ParsedData> = BTreeMap::new();
    for &i in order {
        let (c, f, src) = IMPORT_FILES[i];
        let d = parse(&ctx, ParseFileContext { source_code: src.to_string(), crate_name: CrateName::from(c.to_string()), file_name: f.into(), file_path: f.into() }).map_err(|e| e.to_string())?;
        if let Some(d) = d { let cn = d.crate_name.clone(); *crates.entry(cn).or_default() += d; }
    }
    typeshare_core::reconcile::reconcile_aliases(&mut crates);
    let mut cands: CrateTypes = HashMap::new();
    for (cn, d) in crates.iter_mut() { cands.entry(cn.clone()).or_default().extend(std::mem::take(&mut d.type_names)); }
    let mut out: Vec<u8> = Vec::new();
    for (cn, data) in crates {
        out.extend(format!("=== module {}\n", cn).bytes());
        let r = if lang == 0 { TypeScript { no_version_header: true, ..Default::default() }.generate_types(&mut out, &cands, data) }
                else { Kotlin { package: "p".into(), no_version_header: true, ..Default::default() }.generate_types(&mut out, &cands, data) };
        r.map_err(|e| e.to_string())?;
    }
    String::from_utf8(out).map_err(|e| e.to_string())
}
/// -> Some(description) when the modules generated for arrival order `order` differ from those for the identity order, or when
/// repeating the same order (fresh hash tables, hence fresh hash seeds) gives different bytes
fn imports_case(order: &[usize], repeats: usize) -> Option<String> {
    let id: Vec<usize> = (0..IMPORT_FILES.len()).collect();
    for lang in 0..2 {
        let name = if lang == 0 { "TypeScript" } else { "Kotlin" };
        let base = match imports_generate(&id, lang) { Ok(b) => b, Err(e) => return Some(format!("{} generation failed: {}", name, e)) };
        for r in 0..repeats.max(1) {
            let got = match imports_generate(order, lang) { Ok(b) => b, Err(e) => return Some(format!("{} generation failed: {}", name, e)) };
            if got != base {
                let line = got.lines().zip(base.lines()).find(|(a, b)| a != b).map(|(a, b)| format!("{:?} vs {:?}", a, b)).unwrap_or_else(|| "different length".into());
                return Some(format!("{} modules (one per crate) differ between arrival order {:?} (run {}) and arrival order {:?}: {} (C06: same sources, same bytes)", name, order, r, id, line));
            }
        }
    }
    None
}

// ---------------------------------------------------------------- C05: type expressions translate structurally (independent oracle)
/// a Rust type expression as written in source
#[derive(Clone, Debug)]
enum TE { Prim(&'static str), User(&'static str), Param, Vec(Box<TE>), Arr(Box<TE>, usize), Slice(Box<TE>), Opt(Box<TE>), Map(Box<TE>, Box<TE>),
          Smart(&'static str, Box<TE>), Ref(Box<TE>), Gen(&'static str, Vec<TE>), Qual(&'static str, Box<TE>) }
const TE_PRIMS: [&str; 15] = ["bool", "char", "String", "&str", "i8", "i16", "i32", "u8", "u16", "u32", "I54", "U53", "f32", "f64", "()"];
const TE_SMART: [&str; 8] = ["Box", "Arc", "Rc", "Cow", "Cell", "RefCell", "Mutex", "RwLock"];
impl TE {
    /// the source spelling
    fn src(&self) -> String {
        match self {
            TE::Prim(p) => p.to_string(), TE::User(u) => u.to_string(), TE::Param => "T".into(),
            TE::Vec(t) => format!("Vec<{}>", t.src()), TE::Arr(t, n) => format!("[{}; {}]", t.src(), n), TE::Slice(t) => format!("&'static [{}]", t.src()),
            TE::Opt(t) => format!("Option<{}>", t.src()), TE::Map(k, v) => format!("HashMap<{}, {}>", k.src(), v.src()),
            TE::Smart("Cow", t) => format!("Cow<'static, {}>", t.src()), TE::Smart(s, t) => format!("{}<{}>", s, t.src()),
            TE::Ref(t) => format!("&'static {}", t.src()),
            TE::Gen(g, a) => format!("{}<{}>", g, a.iter().map(|x| x.src()).collect::<Vec<_>>().join(", ")),
            TE::Qual(q, t) => format!("{}::{}", q, t.src()),
        }
    }
    /// the IR the property prescribes: references, smart pointers and path qualification disappear, everything else is kept
    fn ir(&self) -> typeshare_core::rust_types::RustType {
        use typeshare_core::rust_types::{RustType as R, SpecialRustType as S};
        match self {
            TE::Prim(p) => R::Special(match *p { "bool" => S::Bool, "char" => S::Char, "String" | "&str" => S::String, "i8" => S::I8, "i16" => S::I16, "i32" => S::I32,
                "u8" => S::U8, "u16" => S::U16, "u32" => S::U32, "I54" => S::I54, "U53" => S::U53, "f32" => S::F32, "f64" => S::F64, _ => S::Unit }),
            TE::User(u) => R::Simple { id: u.to_string() }, TE::Param => R::Simple { id: "T".into() },
            TE::Vec(t) => R::Special(S::Vec(Box::new(t.ir()))), TE::Arr(t, n) => R::Special(S::Array(Box::new(t.ir()), *n)), TE::Slice(t) => R::Special(S::Slice(Box::new(t.ir()))),
            TE::Opt(t) => R::Special(S::Option(Box::new(t.ir()))), TE::Map(k, v) => R::Special(S::HashMap(Box::new(k.ir()), Box::new(v.ir()))),
            TE::Smart(_, t) | TE::Ref(t) | TE::Qual(_, t) => t.ir(),
            TE::Gen(g, a) => R::Generic { id: g.to_string(), parameters: a.iter().map(|x| x.ir()).collect() },
        }
    }
}
/// target types of the same JSON category that can hold every value (the property's rule; independent of the back ends' tables)
fn prim_allowed(lang: &str, p: &str) -> Vec<&'static str> {
    let sint = |bits: u32| -> Vec<&'static str> { match lang {
        "typescript" => vec!["number"], "python" => vec!["int"],
        "kotlin" | "scala" => [(8, "Byte"), (16, "Short"), (32, "Int"), (64, "Long")].iter().filter(|(b, _)| *b >= bits).map(|(_, n)| *n).collect(),
        "swift" => [(8, "Int8"), (16, "Int16"), (32, "Int32"), (32, "Int"), (64, "Int64")].iter().filter(|(b, _)| *b >= bits).map(|(_, n)| *n).collect(),
        _ => [(8, "int8"), (16, "int16"), (32, "int32"), (32, "int"), (64, "int64")].iter().filter(|(b, _)| *b >= bits).map(|(_, n)| *n).collect() } };
    let uint = |bits: u32| -> Vec<&'static str> { let mut v = sint(bits + 1); v.extend(match lang {
        "typescript" | "python" => vec![],
        "kotlin" | "scala" => [(8, "UByte"), (16, "UShort"), (32, "UInt"), (64, "ULong")].iter().filter(|(b, _)| *b >= bits).map(|(_, n)| *n).collect::<Vec<_>>(),
        "swift" => [(8, "UInt8"), (16, "UInt16"), (32, "UInt32"), (32, "UInt"), (64, "UInt64")].iter().filter(|(b, _)| *b >= bits).map(|(_, n)| *n).collect(),
        _ => [(8, "uint8"), (8, "byte"), (16, "uint16"), (32, "uint32"), (32, "uint"), (64, "uint64")].iter().filter(|(b, _)| *b >= bits).map(|(_, n)| *n).collect() }); v };
    let string = match lang { "typescript" | "go" => "string", "python" => "str", _ => "String" };
    match p {
        "bool" => vec![match lang { "typescript" => "boolean", "kotlin" | "scala" => "Boolean", "swift" => "Bool", _ => "bool" }],
        "String" | "&str" => vec![string],
        "char" => { let mut v = vec![string]; if lang == "swift" { v.extend(["Unicode.Scalar", "Character"]); } if lang == "go" { v.extend(["rune", "int32"]); } v }
        "i8" => sint(8), "i16" => sint(16), "i32" => sint(32), "I54" => sint(54), "u8" => uint(8), "u16" => uint(16), "u32" => uint(32), "U53" => uint(53),
        "f32" => match lang { "typescript" => vec!["number"], "python" => vec!["float"], "go" => vec!["float32", "float64"], _ => vec!["Float", "Double"] },
        "f64" => match lang { "typescript" => vec!["number"], "python" => vec!["float"], "go" => vec!["float64"], _ => vec!["Double"] },
        _ => match lang { "typescript" => vec!["undefined", "null", "void"], "kotlin" | "scala" => vec!["Unit"], "swift" => vec!["CodableVoid"], "go" => vec!["struct{}"], _ => vec!["None"] },
    }
}
const TYPE_LANGS: [&str; 6] = ["typescript", "kotlin", "swift", "scala", "go", "python"];
/// configuration: 0 plain, 1 prefix (Kotlin / Swift), 2 type_mappings for a user type, a generic type and two built-in types
fn type_lang(lang: &str, cfg: usize) -> Box<dyn typeshare_core::language::Language> {
    use typeshare_core::language::{Go, Kotlin, Python, Scala, Swift, TypeScript};
    let maps: std::collections::HashMap<String, String> = if cfg == 2 { [("Other", "MappedOther"), ("Wrap", "MappedWrap"), ("u32", "MappedU32"), ("String", "MappedString")].iter().map(|(a, b)| (a.to_string(), b.to_string())).collect() } else { Default::default() };
    let prefix = if cfg == 1 { "Pre".to_string() } else { String::new() };
    match lang {
        "typescript" => Box::new(TypeScript { type_mappings: maps, ..Default::default() }),
        "kotlin" => Box::new(Kotlin { type_mappings: maps, prefix, ..Default::default() }),
        "swift" => Box::new(Swift { type_mappings: maps, prefix, ..Default::default() }),
        "scala" => Box::new(Scala { type_mappings: maps, ..Default::default() }),
        "go" => Box::new(Go { type_mappings: maps, ..Default::default() }),
        _ => Box::new(Python { type_mappings: maps, ..Default::default() }),
    }
}
/// what the property says the translation of `te` is, given the back end's own spelling of each primitive (checked separately against
/// prim_allowed); Err = the target has no such type and a refusal is admitted (generic parameter as TypeScript / Python map key)
fn type_expect(lang: &str, cfg: usize, te: &TE, prim: &dyn Fn(&str) -> String) -> Result<String, ()> {
    let mapped = |n: &str| -> Option<String> { if cfg == 2 { match n { "Other" => Some("MappedOther".into()), "Wrap" => Some("MappedWrap".into()), "u32" => Some("MappedU32".into()), "String" | "&str" => Some("MappedString".into()), _ => None } } else { None } };
    let pre = |n: &str| -> String { if cfg == 1 && (lang == "kotlin" || lang == "swift") { format!("Pre{}", n) } else { n.to_string() } };
    let seq = |x: String| -> String { match lang { "typescript" => format!("{}[]", x), "kotlin" => format!("List<{}>", x), "swift" => format!("[{}]", x), "scala" => format!("Vector[{}]", x), "go" => format!("[]{}", x), _ => format!("List[{}]", x) } };
    Ok(match te {
        TE::Prim(p) => mapped(p).unwrap_or_else(|| prim(p)),
        TE::User(u) => mapped(u).unwrap_or_else(|| pre(u)),
        TE::Param => "T".into(),
        TE::Vec(t) | TE::Slice(t) => seq(type_expect(lang, cfg, t, prim)?),
        TE::Arr(t, n) => { let x = type_expect(lang, cfg, t, prim)?; match lang { "typescript" => format!("[{}]", vec![x; *n].join(", ")), "go" => format!("[{}]{}", n, x), _ => seq(x) } }
        TE::Opt(t) => { let x = type_expect(lang, cfg, t, prim)?; match lang { "typescript" => x, "kotlin" | "swift" => format!("{}?", x), "scala" => format!("Option[{}]", x), "go" => format!("*{}", x), _ => format!("Optional[{}]", x) } }
        TE::Map(k, v) => {
            if (lang == "typescript" || lang == "python") && matches!(strip(k), TE::Param) { return Err(()); }
            let (x, y) = (type_expect(lang, cfg, k, prim)?, type_expect(lang, cfg, v, prim)?);
            match lang { "typescript" => format!("Record<{}, {}>", x, y), "kotlin" => format!("HashMap<{}, {}>", x, y), "swift" => format!("[{}: {}]", x, y), "scala" => format!("Map[{}, {}]", x, y), "go" => format!("map[{}]{}", x, y), _ => format!("Dict[{}, {}]", x, y) }
        }
        TE::Smart(_, t) | TE::Ref(t) | TE::Qual(_, t) => type_expect(lang, cfg, t, prim)?,
        TE::Gen(g, a) => match mapped(g) { Some(m) => m, None => {
            let args: Result<Vec<String>, ()> = a.iter().map(|x| type_expect(lang, cfg, x, prim)).collect();
            let (o, c) = if matches!(lang, "typescript" | "kotlin" | "swift") { ("<", ">") } else { ("[", "]") };
            format!("{}{}{}{}", pre(g), o, args?.join(", "), c) } },
    })
}
fn strip(t: &TE) -> &TE { match t { TE::Smart(_, x) | TE::Ref(x) | TE::Qual(_, x) => strip(x), o => o } }
fn type_leaves() -> Vec<TE> { let mut v: Vec<TE> = TE_PRIMS.iter().map(|p| TE::Prim(p)).collect(); v.push(TE::User("Other")); v.push(TE::Param); v.push(TE::User("Type")); v }
fn type_unary(t: &TE) -> Vec<TE> {
    let b = || Box::new(t.clone());
    let mut v = vec![TE::Vec(b()), TE::Arr(b(), 3), TE::Slice(b()), TE::Opt(b()), TE::Ref(b()), TE::Gen("Wrap", vec![t.clone()])];
    for s in TE_SMART { v.push(TE::Smart(s, b())); }
    v
}
/// the corpus: depth <= 2 exhaustively, depth 3 for every unary-of-unary, maps and two-argument generics over the leaves, path
/// qualification, depth 4-5 chains; `thorough` adds every binary combination at depth 3
fn type_corpus(thorough: bool) -> Vec<TE> {
    let l0 = type_leaves();
    let mut all: Vec<TE> = l0.clone();
    let mut l1: Vec<TE> = vec![];
    for t in &l0 { l1.extend(type_unary(t)); }
    for k in &l0 { for v in &l0 { l1.push(TE::Map(Box::new(k.clone()), Box::new(v.clone()))); } }
    for a in l0.iter().step_by(3) { for b in l0.iter().step_by(4) { l1.push(TE::Gen("Pair", vec![a.clone(), b.clone()])); } }
    all.extend(l1.clone());
    let mut l2: Vec<TE> = vec![];
    for t in &l1 { if thorough || !matches!(t, TE::Map(_, _)) { l2.extend(type_unary(t)); } }
    for (i, t) in l1.iter().enumerate() { if thorough || i % 7 == 0 { l2.push(TE::Map(Box::new(TE::Prim("String")), Box::new(t.clone()))); l2.push(TE::Map(Box::new(t.clone()), Box::new(TE::Prim("u32")))); l2.push(TE::Gen("Pair", vec![t.clone(), TE::Param])); } }
    all.extend(l2.clone());
    // path qualification and deep chains
    all.push(TE::Qual("std::vec", Box::new(TE::Vec(Box::new(TE::Prim("u8"))))));
    // path-qualified scalars (typeshare::I54 is how the crate's own integer types are usually written)
    for (q, p) in [("typeshare", "I54"), ("typeshare", "U53"), ("std::primitive", "bool"), ("std::primitive", "u32"), ("core::primitive", "f64"), ("std::primitive", "char")] {
        let t = TE::Qual(q, Box::new(TE::Prim(p)));
        all.push(TE::Vec(Box::new(t.clone()))); all.push(TE::Map(Box::new(TE::Prim("String")), Box::new(t.clone()))); all.push(TE::Gen("Wrap", vec![t.clone()])); all.push(t);
    }
    all.push(TE::Qual("std::collections", Box::new(TE::Map(Box::new(TE::Prim("String")), Box::new(TE::Qual("crate::model", Box::new(TE::User("Other"))))))));
    all.push(TE::Qual("other_crate", Box::new(TE::Gen("Wrap", vec![TE::Qual("std::string", Box::new(TE::Prim("String")))]))));
    for (i, t) in l2.iter().enumerate() { if i % (if thorough { 5 } else { 37 }) == 0 { let d3 = TE::Vec(Box::new(TE::Opt(Box::new(t.clone())))); all.push(TE::Map(Box::new(TE::Prim("String")), Box::new(TE::Smart("Arc", Box::new(d3.clone()))))); all.push(d3); } }
    all
}
/// parse `te` in four positions and return the IR found at each (field, tuple-variant payload, struct-variant field, alias target)
fn type_parse_batch(batch: &[TE]) -> Result<Vec<Vec<typeshare_core::rust_types::RustType>>, String> {
    use typeshare_core::rust_types::{RustEnum, RustEnumVariant};
    let mut src = String::from("#[typeshare]\npub struct S<T> {\n");
    for (i, t) in batch.iter().enumerate() { src += &format!("    pub f{}: {},\n", i, t.src()); }
    src += "}\n#[typeshare]\n#[serde(tag = \"t\", content = \"c\")]\npub enum E<T> {\n";
    for (i, t) in batch.iter().enumerate() { src += &format!("    V{}({}),\n    W{} {{ x: {} }},\n", i, t.src(), i, t.src()); }
    src += "}\n";
    for (i, t) in batch.iter().enumerate() { src += &format!("#[typeshare]\npub type A{}<T> = {};\n", i, t.src()); }
    let d = match panic::catch_unwind(|| parse(&ParseContext::default(), ParseFileContext { source_code: src.clone(), crate_name: CrateName::from("c".to_string()), file_name: "f.rs".into(), file_path: "f.rs".into() })) {
        Err(_) => return Err("the parser panicked".into()), Ok(Err(e)) => return Err(format!("parse error: {}", e)), Ok(Ok(None)) => return Err("no data".into()), Ok(Ok(Some(d))) => d };
    if !d.errors.is_empty() { return Err(format!("the parser reported {} error(s), first: {:?}", d.errors.len(), d.errors.first().map(|e| e.error.to_string()))); }
    let mut out = vec![vec![]; batch.len()];
    let s = d.structs.iter().find(|s| s.id.original == "S").ok_or("struct S missing")?;
    for (i, f) in s.fields.iter().enumerate() { if i < batch.len() { out[i].push(f.ty.clone()); } }
    let e = d.enums.iter().find(|e| e.shared().id.original == "E").ok_or("enum E missing")?;
    if let RustEnum::Algebraic { shared, .. } = e { for (j, v) in shared.variants.iter().enumerate() { match v {
        RustEnumVariant::Tuple { ty, .. } => out[j / 2].push(ty.clone()),
        RustEnumVariant::AnonymousStruct { fields, .. } => out[j / 2].push(fields[0].ty.clone()), _ => {} } } }
    for (i, _) in batch.iter().enumerate() { let a = d.aliases.iter().find(|a| a.id.original == format!("A{}", i)).ok_or("alias missing")?; out[i].push(a.r#type.clone()); }
    Ok(out)
}
/// -> Some(description) when the parser's IR or a back end's spelling of `te` is not what the property prescribes
fn type_case(te: &TE, irs: &[typeshare_core::rust_types::RustType]) -> Option<String> {
    let want = te.ir();
    if irs.len() != 4 { return Some(format!("`{}`: parsed at {} of 4 positions", te.src(), irs.len())); }
    for (pos, got) in irs.iter().enumerate() { if *got != want { return Some(format!("`{}` (position {}: {}) is read as {:?}, the property prescribes {:?} (references / smart pointers / paths disappear, everything else is kept)", te.src(), pos, ["field", "variant payload", "struct-variant field", "alias target"][pos], got, want)); } }
    for lang in TYPE_LANGS { for cfg in 0..3 {
        if cfg == 1 && !(lang == "kotlin" || lang == "swift") { continue; }
        // the back end's own spelling of each primitive, checked against the allowed set
        let mut bad: Option<String> = None;
        let prim = |p: &str| -> String {
            let mut l = type_lang(lang, 0);
            l.format_type(&TE::Prim(TE_PRIMS.iter().find(|x| **x == p).unwrap()).ir(), &["T".to_string()]).unwrap_or_else(|e| format!("<error {}>", e)) };
        for p in TE_PRIMS { let got = prim(p); if !prim_allowed(lang, p).contains(&got.as_str()) { bad = Some(format!("{}: `{}` is translated to `{}`, which is not a type of the same JSON category that holds every value (allowed: {:?})", lang, p, got, prim_allowed(lang, p))); } }
        if let Some(b) = bad { return Some(b); }
        let want_s = type_expect(lang, cfg, te, &prim);
        let mut l = type_lang(lang, cfg);
        let w2 = want.clone();
        let got = match panic::catch_unwind(panic::AssertUnwindSafe(|| l.format_type(&w2, &["T".to_string()]))) { Ok(r) => r, Err(_) => return Some(format!("{}: translating `{}` panicked", lang, te.src())) };
        match (got, want_s) {
            (Ok(g), Ok(w)) => if g != w { return Some(format!("{} (configuration {}): `{}` is translated to `{}`, the property prescribes `{}`", lang, cfg, te.src(), g, w)); },
            (Err(e), Ok(w)) => return Some(format!("{} (configuration {}): `{}` is refused ({}), the property prescribes `{}`", lang, cfg, te.src(), e, w)),
            (_, Err(())) => {}
        }
    } }
    None
}

/// type expressions the back ends spell on their own path (not through format_type): the helper type of a struct variant is declared with
/// a generic-parameter list and referred to with one - both must list the same parameters in the same order (generic arguments preserved, in order)
const HELPER_PROGRAMS: [&str; 2] = [
    "#[typeshare]\n#[serde(tag = \"t\", content = \"c\")]\npub enum Message<Req, Resp> { Exchange { response: Option<Resp>, pending: Vec<Req> }, One { only: Resp }, Plain(Req) }\n",
    "#[typeshare]\n#[serde(tag = \"t\", content = \"c\")]\npub enum Tri<A, B, C> { V { z: HashMap<String, C>, y: Vec<Option<A>>, x: B }, W { only: B, again: Vec<B> } }\n",
];
fn helper_lists(out: &str) -> Vec<(String, Vec<String>)> {
    let b = out.as_bytes();
    let mut v = vec![];
    let mut from = 0;
    while let Some(i) = out[from..].find("Inner") {
        let end = from + i + 5;
        let mut st = from + i; while st > 0 && (b[st - 1].is_ascii_alphanumeric() || b[st - 1] == b'_') { st -= 1; }
        from = end;
        if end >= b.len() || !(b[end] == b'<' || b[end] == b'[') { continue; }
        let close = if b[end] == b'<' { b'>' } else { b']' };
        let mut depth = 0; let mut j = end; let mut stop = None;
        while j < b.len() { if b[j] == b[end] { depth += 1; } else if b[j] == close { depth -= 1; if depth == 0 { stop = Some(j); break; } } j += 1; }
        if let Some(e) = stop { v.push((out[st..end].to_string(), out[end + 1..e].split(',').map(|p| p.split(':').next().unwrap().trim().to_string()).collect())); }
    }
    v
}
fn helper_case(k: usize) -> Option<String> {
    use std::collections::HashMap;
    use typeshare_core::language::{Kotlin, Language, Scala, Swift};
    for lang in ["kotlin", "swift", "scala"] {
        let d = match parse_named(HELPER_PROGRAMS[k], "f.rs") { Some(d) => d, None => return Some("no parsed data".into()) };
        let mut out: Vec<u8> = Vec::new();
        let r = match lang { "kotlin" => Kotlin { package: "p".into(), no_version_header: true, ..Default::default() }.generate_types(&mut out, &HashMap::new(), d),
            "swift" => Swift { no_version_header: true, ..Default::default() }.generate_types(&mut out, &HashMap::new(), d),
            _ => Scala { package: "p".into(), no_version_header: true, ..Default::default() }.generate_types(&mut out, &HashMap::new(), d) };
        if let Err(e) = r { return Some(format!("{}: generation failed: {}", lang, e)); }
        let out = String::from_utf8(out).unwrap();
        let lists = helper_lists(&out);
        if lists.is_empty() { return Some(format!("{}: no helper type with generic parameters found in the output", lang)); }
        for (name, l) in &lists { if let Some((_, first)) = lists.iter().find(|(n, _)| n == name) { if first != l {
            return Some(format!("{}: helper type {} is declared with generic parameters <{}> but referred to with <{}> (generic arguments must be preserved in order)", lang, name, first.join(", "), l.join(", "))); } } }
    }
    None
}

// ---------------------------------------------------------------- C04: a member is optional iff Option<T> or bare serde(default)
const OPT_BASES: [&str; 7] = ["u32", "String", "Vec<u32>", "Other", "T", "HashMap<String, u32>", "OffsetDateTime"];
/// (type shape, Option depth as the property reads it): smart pointers are transparent
const OPT_SHAPES: [(&str, usize); 6] = [("X", 0), ("Option<X>", 1), ("Option<Option<X>>", 2), ("Box<Option<X>>", 1), ("Option<Box<X>>", 1), ("Option<Vec<Option<X>>>", 1)];
/// (attribute text, does it make the member optional?, the wire name it sets)
const OPT_OVERRIDE: &str = "#[typeshare(typescript(type = \"Ovr\"), kotlin(type = \"Ovr\"), swift(type = \"Ovr\"), scala(type = \"Ovr\"), go(type = \"Ovr\"))]";
const OPT_ATTRS: [(&str, bool, Option<&str>); 9] = [
    (OPT_OVERRIDE, false, None), ("#[serde(default)] #[typeshare(typescript(type = \"Ovr\"), kotlin(type = \"Ovr\"), swift(type = \"Ovr\"), scala(type = \"Ovr\"), go(type = \"Ovr\"))]", true, None),
    ("", false, None), ("#[serde(default)]", true, None), ("#[serde(default, rename = \"renA\")]", true, Some("renA")), ("#[serde(rename = \"renB\", default)]", true, Some("renB")),
    ("#[serde(default = \"some_fn\")]", false, None), ("#[serde(skip_serializing_if = \"Option::is_none\")]", false, None), ("#[serde(rename = \"renC\")] #[serde(default)]", true, Some("renC")),
];
/// the member as the property's idiom list writes it (independent of the back ends; `t` is the back end's own translation of the field's type)
fn opt_member(lang: &str, name: &str, key: &str, t: &str, is_opt: bool, dbl: bool, dflt: bool) -> Vec<String> {
    let optional = is_opt || dflt;
    match lang {
        "typescript" => vec![format!("{}{}: {}{};", key, if optional { "?" } else { "" }, t, if dbl { " | null" } else { "" })],
        "kotlin" => vec![format!("val {}: {}{}", key, t, if is_opt { " = null" } else if dflt { "? = null" } else { "" })],
        "swift" => vec![format!("public let {}: {}{}\n", key, t, if dflt && !is_opt { "?" } else { "" })],
        "scala" => vec![format!("\t{}: {}", key, if is_opt { format!("{} = None", t) } else if dflt { format!("Option[{}] = None", t) } else { t.to_string() })],
        "go" => vec![format!(" {}{} `json:\"{}{}\"`", if dflt && !is_opt { "*" } else { "" }, t, key, if optional { ",omitempty" } else { "" })],
        _ => { let ty = if dflt && !is_opt { format!("Optional[{}]", t) } else { t.to_string() };
               let mut decs: Vec<String> = vec![]; if key != name { decs.push(format!("alias=\"{}\"", key)); } if optional { decs.push("default=None".into()); }
               vec![format!("    {}: {}{}\n", name, ty, if decs.is_empty() { String::new() } else { format!(" = Field({})", decs.join(", ")) })] }
    }
}
/// one program: a generic struct S<T> with one field per (base, shape, attribute) of the slice `cases`, and the same fields in a struct variant
/// member names without digits or underscores (back ends re-case names; a plain lowercase word survives all of them)
fn opt_name(i: usize) -> String { format!("mem{}{}", (b'a' + (i / 26) as u8) as char, (b'a' + (i % 26) as u8) as char) }
fn opt_program(cases: &[(usize, usize, usize)]) -> String {
    let mut fields = String::new();
    for (i, (b, sh, at)) in cases.iter().enumerate() { fields += &format!("    {} pub {}: {},\n", OPT_ATTRS[*at].0, opt_name(i), OPT_SHAPES[*sh].0.replace("X", OPT_BASES[*b])); }
    format!("#[typeshare]\npub struct Other {{ pub o: u32 }}\n#[typeshare]\npub struct S<T> {{\n{}}}\n#[typeshare]\n#[serde(tag = \"t\", content = \"c\")]\npub enum E<T> {{ V {{\n{}}}, W(Option<T>), R(T) }}\n", fields, fields.replace("pub ", ""))
}
/// -> Some(description) when some member of the program is not written as the property prescribes
fn opt_case(cases: &[(usize, usize, usize)]) -> Option<String> {
    use std::collections::HashMap;
    use typeshare_core::language::{Go, Kotlin, Language, Python, Scala, Swift, TypeScript};
    use typeshare_core::rust_types::{RustType, SpecialRustType};
    let src = opt_program(cases);
    for lang in TYPE_LANGS {
        // OffsetDateTime is refused by Kotlin / Swift / Scala (outside the property's alphabet): those members go to the other three only
        if cases.iter().any(|c| c.0 == 6) && matches!(lang, "kotlin" | "swift" | "scala") { continue; }
        let d = match panic::catch_unwind(|| parse_named(&src, "f.rs")) { Ok(Some(d)) => d, Ok(None) => return Some("no parsed data".into()), Err(_) => return Some("the parser panicked".into()) };
        if !d.errors.is_empty() { return Some(format!("parse errors: {:?}", d.errors.first().map(|e| e.error.to_string()))); }
        // what the parser recorded for the struct's fields
        let st = d.structs.iter().find(|s| s.id.original == "S")?.clone();
        let mut out: Vec<u8> = Vec::new();
        let mut l: Box<dyn Language> = match lang { "typescript" => Box::new(TypeScript { no_version_header: true, ..Default::default() }), "kotlin" => Box::new(Kotlin { package: "p".into(), no_version_header: true, ..Default::default() }),
            "swift" => Box::new(Swift { no_version_header: true, ..Default::default() }), "scala" => Box::new(Scala { package: "p".into(), no_version_header: true, ..Default::default() }),
            "go" => Box::new(Go { package: "p".into(), no_version_header: true, ..Default::default() }), _ => Box::new(Python { no_version_header: true, ..Default::default() }) };
        if let Err(e) = l.generate_types(&mut out, &HashMap::new(), d) { return Some(format!("{}: generation failed: {}", lang, e)); }
        let out = String::from_utf8(out).unwrap();
        for (i, (b, sh, at)) in cases.iter().enumerate() {
            let f = &st.fields[i];
            let (depth, dflt) = (OPT_SHAPES[*sh].1, OPT_ATTRS[*at].1);
            let src_ty = OPT_SHAPES[*sh].0.replace("X", OPT_BASES[*b]);
            // the parser's part: has_default exactly for the bare default, the Option depth of the recorded type
            if f.has_default != dflt { return Some(format!("field `{} {}`: has_default is {} but the attribute {} the bare serde(default)", OPT_ATTRS[*at].0, src_ty, f.has_default, if dflt { "is / contains" } else { "is not" })); }
            let got_depth = match &f.ty { RustType::Special(SpecialRustType::Option(t)) => if matches!(t.as_ref(), RustType::Special(SpecialRustType::Option(_))) { 2 } else { 1 }, _ => 0 };
            if got_depth.min(2) != depth { return Some(format!("field of type `{}` is recorded with Option depth {} (expected {})", src_ty, got_depth, depth)); }
            let name = opt_name(i);
            let key = OPT_ATTRS[*at].2.map(|k| k.to_string()).unwrap_or(name.clone());
            let overridden = OPT_ATTRS[*at].0.contains("type = \"Ovr\"") && lang != "python";
            // an override replaces the translated type, not the optionality: where the marker of Option<T> is part of the type text
            // (Kotlin / Swift `?`, Scala `Option[..]`, Go `*`) it is written around the override
            let t = if overridden { match (lang, depth >= 1) { ("kotlin", true) | ("swift", true) => "Ovr?".to_string(), ("scala", true) => "Option[Ovr]".to_string(), ("go", true) => "*Ovr".to_string(), _ => "Ovr".to_string() } } else { let mut l2: Box<dyn Language> = match lang { "typescript" => Box::new(TypeScript::default()), "kotlin" => Box::new(Kotlin::default()), "swift" => Box::new(Swift::default()), "scala" => Box::new(Scala::default()), "go" => Box::new(Go::default()), _ => Box::new(Python::default()) };
                      match l2.format_type(&f.ty, &["T".to_string()]) { Ok(t) => t, Err(_) => continue } };
            // TypeScript's `| null` for Option<Option<T>> is part of the member, an override replaces only the type text
            // Scala: the recorded finding kf-c04-scala-default (non-Option member with serde(default) is written `T = _`) is reported separately
            if lang == "scala" && dflt && depth == 0 { continue; }
            // Python wraps a bare `datetime` / `bytes` member in Annotated[.., validators] (custom (de)serialisers): not part of this oracle;
            // Optional[datetime] has no such wrapper and is checked
            if lang == "python" && (t == "datetime" || t == "bytes") {
                // .. the wrapper goes around the whole member type: the optional marker (`Optional[..]` for serde(default) on a non-Option) stays
                // inside, around the type text, and `= Field(.., default=None)` follows as for any other member
                let ty = if dflt && depth == 0 { format!("Optional[{}]", t) } else { t.clone() };
                let head = format!("    {}: Annotated[{}, BeforeValidator(", name, ty);
                let mut decs: Vec<String> = vec![]; if key != name { decs.push(format!("alias=\"{}\"", key)); } if depth >= 1 || dflt { decs.push("default=None".into()); }
                let tail = if decs.is_empty() { ")]".to_string() } else { format!(")] = Field({})", decs.join(", ")) };
                let n = out.lines().filter(|l| l.starts_with(&head) && l.ends_with(&tail)).count();
                if n < 2 { return Some(format!("python: member `{} {}: {}` (custom (de)serialiser) must be written `{}..{}` (Optional[..] inside the Annotated[..] wrapper when bare serde(default) stands on a non-Option, type text unchanged) - found {} time(s) instead of 2", OPT_ATTRS[*at].0, name, src_ty, head.trim(), tail, n)); }
                continue;
            }
            let go_name = if lang == "go" { let mut c = name.chars(); format!("\t{}{}", c.next().unwrap().to_uppercase(), c.as_str()) } else { String::new() };
            for want in opt_member(lang, &name, &key, &t, depth >= 1, depth >= 2, dflt) {
                let want = if lang == "go" { format!("{}{}", go_name, want) } else { want };
                let n = out.matches(&want).count();
                // the struct and the struct variant's helper type both carry the member
                if lang == "swift" {
                    // the initialiser repeats every member: same type text, same marker
                    let p = format!("{}: {}{}", key, t, if dflt && depth == 0 { "?" } else { "" });
                    let inits: Vec<&str> = out.lines().filter(|l| l.trim_start().starts_with("public init(")).collect();
                    let hits = inits.iter().filter(|l| l.contains(&format!("({}, ", p)) || l.contains(&format!(", {}, ", p)) || l.contains(&format!(", {})", p)) || l.contains(&format!("({})", p))).count();
                    if hits < 2 { return Some(format!("swift: the initialiser parameter of member `{} {}: {}` must be `{}` (the same type text and marker as the stored property) - found in {} initialiser(s) instead of 2", OPT_ATTRS[*at].0, name, src_ty, p, hits)); }
                }
                if n < 2 { return Some(format!("{}: member `{} {}: {}` must be written `{}` ({} when Option<T> or bare serde(default), type text unchanged) - found {} time(s) instead of 2", lang, OPT_ATTRS[*at].0, name, src_ty, want.trim(), if depth >= 1 || dflt { "optional" } else { "required" }, n)); }
            }
        }
    }
    None
}
fn opt_all_cases() -> Vec<(usize, usize, usize)> { let mut v = vec![]; for b in 0..OPT_BASES.len() { for sh in 0..OPT_SHAPES.len() { for at in 0..OPT_ATTRS.len() { v.push((b, sh, at)); } } } v }

// ---------------------------------------------------------------- C15: doc text stays inside comments of the generated code
/// doc strings over the property's alphabet; every one carries the marker INJ<k> right after the dangerous sequence, so that a lexer of the
/// target language can tell whether the marker ended up outside a comment / docstring
const DOC_TEXTS: [&str; 18] = [
    "plain text INJ0", "first\nINJ1 second line", "ends a block */ INJ2 /* reopens", "opens /* INJ3 nested", "line // INJ4 slashes",
    "quotes \"\"\" INJ5 \"\"\" triple", "single ''' INJ6 ''' triple", "back\\slash \\\" INJ7 \\", "trailing backslash INJ8 \\", "hash # INJ9 text",
    "tick ` INJ10 ` tick", "cr\rINJ11 after carriage return", "*/\nINJ12\n/*", "\"\"\"\nINJ13 = 1\n\"\"\"",
    // quote runs that are not a multiple of three, a backslash right before the quotes, ragged indentation after a line break
    "four \"\"\"\" INJ14 \"\"\"\" quotes", "five \"\"\"\"\" INJ15 quotes", "escaped \\\"\"\" INJ16 \\\"\"\" run", "first\n    indented\nINJ17 back at the margin",
];
/// how the doc text is written in the Rust source: 0 `///` lines, 1 `/** */`, 2 #[doc = ".."]
fn doc_attr(text: &str, form: usize) -> Option<String> {
    match form {
        0 => Some(text.split('\n').map(|l| format!("/// {}\n", l.replace('\r', " "))).collect()),
        1 => if text.contains("*/") || text.contains("/*") || text.contains('\r') { None } else { Some(format!("/** {} */\n", text)) },
        _ => Some(format!("#[doc = {:?}]\n", text)),
    }
}
/// the program: doc text `d` at every documentable position
fn doc_program(d: usize, form: usize) -> Option<String> { doc_program_named(d, form, false) }
/// godoc style: every doc text starts with the name of the item it documents, and the names end in `Id` (renamed by Go's acronym list)
fn doc_program_named(d: usize, form: usize, godoc: bool) -> Option<String> {
    if godoc {
        let at = |n: &str| doc_attr(&format!("{} {}", n, DOC_TEXTS[d]), form);
        return Some(format!("{}#[typeshare]\npub struct AccountId {{\n{}pub f: u32,\n}}\n{}#[typeshare]\npub enum KindId {{\n{}A,\n}}\n{}#[typeshare]\n#[serde(tag = \"t\", content = \"c\")]\npub enum EventId {{\n{}T(u32),\n{}V {{\n{}x: u32,\n}},\n}}\n{}#[typeshare]\npub type AliasId = Vec<u32>;\n",
            at("AccountId")?, at("f")?, at("KindId")?, at("A")?, at("EventId")?, at("T")?, at("V")?, at("x")?, at("AliasId")?));
    }
    let a = doc_attr(DOC_TEXTS[d], form)?;
    Some(format!("{a}#[typeshare]\npub struct S {{\n{a}pub f: u32,\n}}\n{a}#[typeshare]\npub enum U {{\n{a}A,\n{a}B,\n}}\n{a}#[typeshare]\n#[serde(tag = \"t\", content = \"c\")]\npub enum E {{\n{a}T(u32),\n{a}V {{\n{a}x: u32,\n}},\n{a}N,\n}}\n{a}#[typeshare]\npub type Al = Vec<u32>;\n", a = a))
}
/// byte ranges of the text that is NOT inside a comment or string of the target language
fn code_regions(lang: &str, out: &str) -> Vec<(usize, usize)> {
    let b = out.as_bytes();
    let nested = matches!(lang, "kotlin" | "swift" | "scala");
    let (mut i, mut start, mut v) = (0usize, 0usize, vec![]);
    let n = b.len();
    while i < n {
        if lang == "python" {
            if b[i] == b'#' { v.push((start, i)); while i < n && b[i] != b'\n' { i += 1; } start = i; continue; }
            if b[i] == b'"' || b[i] == b'\'' {
                v.push((start, i));
                let q = b[i];
                let triple = i + 2 < n && b[i + 1] == q && b[i + 2] == q;
                i += if triple { 3 } else { 1 };
                loop {
                    if i >= n { break; }
                    if b[i] == b'\\' { i += 2; continue; }
                    if triple { if i + 2 < n && b[i] == q && b[i + 1] == q && b[i + 2] == q { i += 3; break; } }
                    else if b[i] == q || b[i] == b'\n' { i += 1; break; }
                    i += 1;
                }
                start = i.min(n); continue;
            }
            i += 1; continue;
        }
        if i + 1 < n && b[i] == b'/' && b[i + 1] == b'/' {
            v.push((start, i));
            // Swift ends a line comment at LF or CR
            while i < n && b[i] != b'\n' && !(lang == "swift" && b[i] == b'\r') { i += 1; }
            start = i; continue;
        }
        if i + 1 < n && b[i] == b'/' && b[i + 1] == b'*' {
            v.push((start, i));
            let mut depth = 1; i += 2;
            while i < n && depth > 0 {
                if nested && i + 1 < n && b[i] == b'/' && b[i + 1] == b'*' { depth += 1; i += 2; continue; }
                if i + 1 < n && b[i] == b'*' && b[i + 1] == b'/' { depth -= 1; i += 2; continue; }
                i += 1;
            }
            start = i.min(n); continue;
        }
        if b[i] == b'"' || (lang == "go" && b[i] == b'`') || ((lang == "typescript") && (b[i] == b'\'' || b[i] == b'`')) {
            v.push((start, i));
            let q = b[i]; i += 1;
            while i < n { if b[i] == b'\\' && q != b'`' { i += 2; continue; } if b[i] == q || (b[i] == b'\n' && q != b'`') { i += 1; break; } i += 1; }
            start = i.min(n); continue;
        }
        i += 1;
    }
    v.push((start, n));
    v
}
/// -> Some(description) when a marker of the doc text lies outside every comment / docstring, or the doc text is not reproduced at all
fn doc_case(d: usize, form: usize) -> Option<String> { doc_case_named(d, form, false).or_else(|| doc_case_named(d, form, true)) }
fn doc_case_named(d: usize, form: usize, godoc: bool) -> Option<String> {
    use std::collections::HashMap;
    use typeshare_core::language::{Go, Kotlin, Language, Python, Scala, Swift, TypeScript};
    let src = match doc_program_named(d, form, godoc) { Some(s) => s, None => return None };
    let marker = format!("INJ{}", d);
    for lang in TYPE_LANGS {
        let data = match panic::catch_unwind(|| parse_named(&src, "f.rs")) { Ok(Some(x)) => x, Ok(None) => return Some("no parsed data".into()), Err(_) => return Some("the parser panicked".into()) };
        if !data.errors.is_empty() { return Some(format!("parse errors: {:?}", data.errors.first().map(|e| e.error.to_string()))); }
        let mut out: Vec<u8> = Vec::new();
        let mut l: Box<dyn Language> = match lang { "typescript" => Box::new(TypeScript { no_version_header: true, ..Default::default() }), "kotlin" => Box::new(Kotlin { package: "p".into(), no_version_header: true, ..Default::default() }),
            "swift" => Box::new(Swift { no_version_header: true, ..Default::default() }), "scala" => Box::new(Scala { package: "p.q".into(), no_version_header: true, ..Default::default() }),
            "go" => Box::new(Go { package: "p".into(), no_version_header: true, uppercase_acronyms: if godoc { vec!["ID".to_string()] } else { vec![] }, ..Default::default() }), _ => Box::new(Python { no_version_header: true, ..Default::default() }) };
        if let Err(e) = l.generate_types(&mut out, &HashMap::new(), data) { return Some(format!("{}: generation failed: {}", lang, e)); }
        let out = String::from_utf8(out).unwrap();
        if !out.contains(&marker) { return Some(format!("{}: the doc text is not reproduced in the output", lang)); }
        for (a, b) in code_regions(lang, &out) {
            if let Some(p) = out[a..b].find(&marker) {
                let line_start = out[..a + p].rfind('\n').map_or(0, |x| x + 1);
                let line_end = out[a + p..].find('\n').map_or(out.len(), |x| a + p + x);
                return Some(format!("{}: doc text {:?} ({}) ends up OUTSIDE a comment: the line `{}` is code", lang, DOC_TEXTS[d], ["/// lines", "/** */ block", "#[doc = ..]"][form], out[line_start..line_end].trim()));
            }
        }
    }
    None
}

// ---------------------------------------------------------------- C12: every helper name typeshare introduces is defined or imported
/// trigger types: (source spelling, language -> helper names the output then uses)
const HELPER_TRIGGERS: [&str; 8] = ["()", "u8", "u16", "u32", "U53", "OffsetDateTime", "Vec<u32>", "HashMap<String, u32>"];
/// nestings of a trigger type X
const HELPER_NEST: [&str; 9] = ["X", "Vec<X>", "Option<X>", "Vec<Vec<X>>", "Option<Vec<X>>", "HashMap<String, X>", "HashMap<String, Vec<X>>", "[X; 2]", "Wrap<X>"];
/// positions: 0 struct field, 1 tuple-variant payload, 2 struct-variant field, 3 alias target
fn helper_program(trigger: usize, nest: usize, pos: usize) -> String {
    let ty = HELPER_NEST[nest].replace("X", HELPER_TRIGGERS[trigger]);
    let wrap = "#[typeshare]\npub struct Wrap<T> { pub t: T }\n";
    match pos {
        0 => format!("{}#[typeshare]\npub struct S {{ pub f: {}, #[serde(default)] pub g: {} }}\n", wrap, ty, ty),
        1 => format!("{}#[typeshare]\n#[serde(tag = \"t\", content = \"c\")]\npub enum E {{ V({}), W }}\n", wrap, ty),
        2 => format!("{}#[typeshare]\n#[serde(tag = \"t\", content = \"c\")]\npub enum E {{ V {{ x: {} }}, W }}\n", wrap, ty),
        4 => format!("{}#[typeshare]\npub struct S {{ #[serde(default)] pub g: {} }}\n", wrap, ty),
        _ => format!("{}#[typeshare]\npub type Al = {};\n", wrap, ty),
    }
}
/// (name used in code, text that defines or imports it) pairs of one language; a use is a whole-token occurrence outside comments
fn helper_names(lang: &str) -> Vec<(&'static str, Vec<&'static str>)> {
    match lang {
        "swift" => vec![("CodableVoid", vec!["struct CodableVoid"])],
        "scala" => vec![("UByte", vec!["type UByte ="]), ("UShort", vec!["type UShort ="]), ("UInt", vec!["type UInt ="]), ("ULong", vec!["type ULong ="])],
        "python" => vec![("List", vec!["import List", ", List", "import (List"]), ("Dict", vec!["import Dict", ", Dict"]), ("Optional", vec!["import Optional", ", Optional"]),
                         ("datetime", vec!["from datetime import datetime"]), ("BaseModel", vec!["import BaseModel", ", BaseModel"]), ("Field", vec!["import Field", ", Field"]),
                         ("Literal", vec!["import Literal", ", Literal"]), ("Union", vec!["import Union", ", Union"]), ("Enum", vec!["import Enum"]), ("TypeVar", vec!["import TypeVar", ", TypeVar"]),
                         ("Generic", vec!["import Generic", ", Generic"]), ("Annotated", vec!["import Annotated", ", Annotated"]), ("BeforeValidator", vec!["BeforeValidator,", "import BeforeValidator", ", BeforeValidator"]),
                         ("ConfigDict", vec!["ConfigDict,", ", ConfigDict", "import ConfigDict"])],
        "go" => vec![("time.Time", vec!["import \"time\"", "\"time\""]), ("json.", vec!["\"encoding/json\""])],
        "typescript" => vec![("ReviverFunc", vec!["export const ReviverFunc"])],
        _ => vec![],
    }
}
fn token_uses(code: &str, name: &str) -> usize {
    let b = code.as_bytes(); let mut n = 0; let mut from = 0;
    while let Some(i) = code[from..].find(name) {
        let s = from + i; let e = s + name.len();
        let before_ok = s == 0 || !(b[s - 1].is_ascii_alphanumeric() || b[s - 1] == b'_' || b[s - 1] == b'.');
        let after_ok = e >= b.len() || !(b[e].is_ascii_alphanumeric() || b[e] == b'_') || name.ends_with('.');
        if before_ok && after_ok { n += 1; }
        from = e;
    }
    n
}
/// -> Some(description) when a helper name is used in the generated code of some language but neither defined nor imported there
fn helper_case2(trigger: usize, nest: usize, pos: usize) -> Option<String> {
    use std::collections::HashMap;
    use typeshare_core::language::{Go, Kotlin, Language, Python, Scala, Swift, TypeScript};
    let src = helper_program(trigger, nest, pos);
    for lang in TYPE_LANGS {
        let data = match panic::catch_unwind(|| parse_named(&src, "f.rs")) { Ok(Some(x)) => x, Ok(None) => return Some("no parsed data".into()), Err(_) => return Some("the parser panicked".into()) };
        if !data.errors.is_empty() { return None; }   // not a supported program (e.g. an alias of a bare container): nothing to check
        let mut out: Vec<u8> = Vec::new();
        let mut l: Box<dyn Language> = match lang { "typescript" => Box::new(TypeScript { no_version_header: true, ..Default::default() }), "kotlin" => Box::new(Kotlin { package: "p".into(), no_version_header: true, ..Default::default() }),
            "swift" => Box::new(Swift { no_version_header: true, ..Default::default() }), "scala" => Box::new(Scala { package: "p.q".into(), no_version_header: true, ..Default::default() }),
            "go" => Box::new(Go { package: "p".into(), no_version_header: true, ..Default::default() }), _ => Box::new(Python { no_version_header: true, ..Default::default() }) };
        if l.generate_types(&mut out, &HashMap::new(), data).is_err() { continue; }   // a refusal (OffsetDateTime in Kotlin / Swift / Scala) uses no name
        let out = String::from_utf8(out).unwrap();
        // uses are counted in code only (not in comments / strings)
        let code: String = code_regions(lang, &out).iter().map(|(a, b)| &out[*a..*b]).collect::<Vec<_>>().join(" ");
        for (name, defs) in helper_names(lang) {
            let uses = token_uses(&code, name);
            let defined = defs.iter().any(|d| out.contains(d));
            // a definition line itself counts as one use of the name
            let own = defs.iter().map(|d| if token_uses(d, name) > 0 { out.matches(d).count() } else { 0 }).sum::<usize>();
            if uses > own && !defined {
                return Some(format!("{}: `{}` is used in the generated code of `{}` but neither defined nor imported there", lang, name, src.lines().rev().take(2).collect::<Vec<_>>().into_iter().rev().collect::<Vec<_>>().join(" ")));
            }
        }
    }
    None
}

/// further C12 rules beyond "a used helper name is defined / imported":
/// TypeScript - a type that needs a custom JSON translation (Date, a mapped Uint8Array) in code => the ReviverFunc / ReplacerFunc footer exists;
/// Python - every TypeVar name used is declared, every function named in BeforeValidator(..) / PlainSerializer(..) is defined;
/// Scala with a type mapping for ONE unsigned integer - the aliases of the others are still defined;
/// Swift in one-module-per-crate mode - CodableVoid used in a module => the shared Codable.swift (written by post_generation) defines it.
fn helper_extra(trigger: usize, nest: usize, pos: usize) -> Option<String> {
    use std::collections::HashMap;
    use typeshare_core::language::{Language, Python, Scala, Swift, TypeScript};
    let src = helper_program(trigger, nest, pos);
    let parse1 = || panic::catch_unwind(|| parse_named(&src, "f.rs")).ok().flatten().filter(|d| d.errors.is_empty());
    let prog = src.lines().rev().take(2).collect::<Vec<_>>().into_iter().rev().collect::<Vec<_>>().join(" ");
    // ---- TypeScript, plain and with the documented Vec<u8> mapping
    for mapped in [false, true] {
        if let Some(d) = parse1() {
            let maps: HashMap<String, String> = if mapped { [("Vec<u8>".to_string(), "Uint8Array".to_string())].into_iter().collect() } else { HashMap::new() };
            let mut out: Vec<u8> = Vec::new();
            if (TypeScript { no_version_header: true, type_mappings: maps, ..Default::default() }).generate_types(&mut out, &HashMap::new(), d).is_ok() {
                let out = String::from_utf8(out).unwrap();
                let body = out.split("export const ReviverFunc").next().unwrap_or("");
                let code: String = code_regions("typescript", body).iter().map(|(a, b)| &body[*a..*b]).collect::<Vec<_>>().join(" ");
                for ty in ["Date", "Uint8Array"] {
                    if token_uses(&code, ty) > 0 && !(out.contains("export const ReviverFunc") && out.contains("export const ReplacerFunc")) {
                        return Some(format!("typescript{}: `{}` is used in the generated code of `{}` but the ReviverFunc / ReplacerFunc helpers that translate it are not emitted", if mapped { " (\"Vec<u8>\" = \"Uint8Array\")" } else { "" }, ty, prog));
                    }
                }
            }
        }
    }
    // ---- Scala with one unsigned integer mapped
    if let Some(d) = parse1() {
        let maps: HashMap<String, String> = [("U53".to_string(), "Long".to_string())].into_iter().collect();
        let mut out: Vec<u8> = Vec::new();
        if (Scala { package: "p.q".into(), no_version_header: true, type_mappings: maps, ..Default::default() }).generate_types(&mut out, &HashMap::new(), d).is_ok() {
            let out = String::from_utf8(out).unwrap();
            let code: String = code_regions("scala", &out).iter().map(|(a, b)| &out[*a..*b]).collect::<Vec<_>>().join(" ");
            for (name, def) in [("UByte", "type UByte ="), ("UShort", "type UShort ="), ("UInt", "type UInt =")] {
                let own = out.matches(def).count();
                if token_uses(&code, name) > own && own == 0 { return Some(format!("scala (\"U53\" = \"Long\"): `{}` is used in the generated code of `{}` but not defined", name, prog)); }
            }
        }
    }
    // ---- Python: functions named by validators / serialisers
    if let Some(d) = parse1() {
        let mut out: Vec<u8> = Vec::new();
        if (Python { no_version_header: true, ..Default::default() }).generate_types(&mut out, &HashMap::new(), d).is_ok() {
            let out = String::from_utf8(out).unwrap();
            for call in ["BeforeValidator(", "PlainSerializer("] {
                let mut from = 0;
                while let Some(i) = out[from..].find(call) {
                    let s = from + i + call.len();
                    let e = out[s..].find(')').map_or(out.len(), |x| s + x);
                    let f = out[s..e].trim();
                    if !f.is_empty() && f.chars().all(|c| c.is_ascii_alphanumeric() || c == '_') && !out.contains(&format!("def {}(", f)) {
                        return Some(format!("python: `{}` is named in `{}{})` in the generated code of `{}` but never defined", f, call, f, prog));
                    }
                    from = e;
                }
            }
        }
    }
    // ---- Swift, one module per crate: the definition lives in Codable.swift, written by post_generation
    if let Some(d) = parse1() {
        let mut out: Vec<u8> = Vec::new();
        let mut sw = Swift { no_version_header: true, multi_file: true, ..Default::default() };
        if sw.generate_types(&mut out, &HashMap::new(), d).is_ok() {
            let out = String::from_utf8(out).unwrap();
            let code: String = code_regions("swift", &out).iter().map(|(a, b)| &out[*a..*b]).collect::<Vec<_>>().join(" ");
            if token_uses(&code, "CodableVoid") > 0 && !out.contains("struct CodableVoid") {
                let dir = std::env::temp_dir().join(format!("verif-replay-helper-{}-{}-{}-{}", std::process::id(), trigger, nest, pos));
                let _ = std::fs::remove_dir_all(&dir); std::fs::create_dir_all(&dir).unwrap();
                let r = sw.post_generation(&dir.to_string_lossy());
                let shared = std::fs::read_to_string(dir.join("Codable.swift")).unwrap_or_default();
                let _ = std::fs::remove_dir_all(&dir);
                if r.is_err() || !shared.contains("struct CodableVoid") { return Some(format!("swift (one module per crate): `CodableVoid` is used in the module generated for `{}` but the shared Codable.swift does not define it", prog)); }
            }
        }
    }
    None
}
/// TypeScript: a user / library type mapped (type_mappings) to a type text with reviver / replacer snippets (`Date`, `Uint8Array`) needs the footer too
const TS_MAPPED: [(&str, &str, &str); 2] = [("DateTime", "DateTime<Utc>", "Date"), ("Bytes", "Bytes", "Uint8Array")];
fn ts_mapped_case(m: usize, pos: usize) -> Option<String> {
    use std::collections::HashMap;
    use typeshare_core::language::{Language, TypeScript};
    let (name, rust, ts) = TS_MAPPED[m];
    let src = match pos {
        0 => format!("#[typeshare]\npub struct S {{ pub f: {} }}\n", rust),
        1 => format!("#[typeshare]\npub struct S {{ pub f: Option<{}> }}\n", rust),
        2 => format!("#[typeshare]\n#[serde(tag = \"t\", content = \"c\")]\npub enum E {{ V {{ x: {} }}, W }}\n", rust),
        3 => format!("#[typeshare]\npub struct S {{ pub f: Vec<{}> }}\n", rust),
        4 => format!("#[typeshare]\n#[serde(tag = \"t\", content = \"c\")]\npub enum E {{ V({}), W }}\n", rust),
        _ => format!("#[typeshare]\npub type Al = {};\n", rust),
    };
    let d = panic::catch_unwind(|| parse_named(&src, "f.rs")).ok().flatten().filter(|d| d.errors.is_empty())?;
    let maps: HashMap<String, String> = [(name.to_string(), ts.to_string())].into_iter().collect();
    let mut out: Vec<u8> = Vec::new();
    if (TypeScript { no_version_header: true, type_mappings: maps, ..Default::default() }).generate_types(&mut out, &HashMap::new(), d).is_err() { return None; }
    let out = String::from_utf8(out).unwrap();
    let body = out.split("export const ReviverFunc").next().unwrap_or("");
    let code: String = code_regions("typescript", body).iter().map(|(a, b)| &body[*a..*b]).collect::<Vec<_>>().join(" ");
    if token_uses(&code, ts) > 0 && !(out.contains("export const ReviverFunc") && out.contains("export const ReplacerFunc")) {
        return Some(format!("typescript (\"{}\" = \"{}\"): `{}` is used in the generated code of `{}` but the ReviverFunc / ReplacerFunc helpers that translate it are not emitted", name, ts, ts, src.lines().last().unwrap_or("")));
    }
    None
}
/// generic parameters (Python TypeVars): a parameter that occurs only inside some container of a struct field / variant payload must still be declared
const TYPEVAR_NEST: [&str; 8] = ["B", "Vec<B>", "Option<B>", "[B; 2]", "&'static [B]", "HashMap<String, B>", "Vec<[B; 3]>", "Wrap<B>"];
fn typevar_case(nest: usize, shape: usize) -> Option<String> {
    use std::collections::HashMap;
    use typeshare_core::language::{Language, Python};
    let ty = TYPEVAR_NEST[nest];
    let src = match shape {
        0 => format!("#[typeshare]\npub struct Wrap<T> {{ pub t: T }}\n#[typeshare]\npub struct S<B> {{ pub f: {} }}\n", ty),
        1 => format!("#[typeshare]\npub struct Wrap<T> {{ pub t: T }}\n#[typeshare]\n#[serde(tag = \"t\", content = \"c\")]\npub enum E<B> {{ V({}), W }}\n", ty),
        // a parameter no emitted member mentions (the marker pattern: only a skipped PhantomData field uses it) is still written in `Generic[..]`
        3 => format!("#[typeshare]\npub struct S<B> {{ pub a: u32, #[serde(skip)] pub m: std::marker::PhantomData<{}> }}\n", ty),
        4 => format!("#[typeshare]\npub struct S<A, B> {{ pub a: A, #[typeshare(skip)] pub m: std::marker::PhantomData<{}> }}\n", ty),
        _ => format!("#[typeshare]\npub struct Wrap<T> {{ pub t: T }}\n#[typeshare]\n#[serde(tag = \"t\", content = \"c\")]\npub enum E<B> {{ V {{ x: {} }}, W }}\n", ty),
    };
    let d = panic::catch_unwind(|| parse_named(&src, "f.rs")).ok().flatten().filter(|d| d.errors.is_empty())?;
    let mut out: Vec<u8> = Vec::new();
    if (Python { no_version_header: true, ..Default::default() }).generate_types(&mut out, &HashMap::new(), d).is_err() { return None; }
    let out = String::from_utf8(out).unwrap();
    let code: String = code_regions("python", &out).iter().map(|(a, b)| &out[*a..*b]).collect::<Vec<_>>().join(" ");
    if token_uses(&code, "B") > 0 && !out.contains("B = TypeVar(") { return Some(format!("python: the type variable `B` is used in the generated code of `{}` but never declared (`B = TypeVar(\"B\")`)", src.lines().last().unwrap_or(""))); }
    if out.contains("TypeVar(") && !(out.contains("import TypeVar") || out.contains(", TypeVar")) { return Some("python: TypeVar is used but not imported".into()); }
    None
}

// ---------------------------------------------------------------- C13: cfg expressions vs the documented rule
#[derive(Clone, Debug)]
enum Cfg { Os(char), Feat, Word, Any(Vec<Cfg>), All(Vec<Cfg>), Not(Box<Cfg>) }
impl Cfg {
    fn text(&self) -> String {
        match self {
            Cfg::Os(c) => format!("target_os = \"{}\"", c), Cfg::Feat => "feature = \"f\"".into(), Cfg::Word => "unix".into(),
            Cfg::Any(v) => format!("any({})", v.iter().map(|e| e.text()).collect::<Vec<_>>().join(", ")),
            Cfg::All(v) => format!("all({})", v.iter().map(|e| e.text()).collect::<Vec<_>>().join(", ")),
            Cfg::Not(e) => format!("not({})", e.text()),
        }
    }
    /// OS names outside / inside not(...), by the property's reading (independent of the implementation's stack walk)
    fn names(&self, in_not: bool, acc: &mut Vec<char>, rej: &mut Vec<char>) {
        match self {
            Cfg::Os(c) => if in_not { rej.push(*c) } else { acc.push(*c) },
            Cfg::Feat | Cfg::Word => {}
            Cfg::Any(v) | Cfg::All(v) => for e in v { e.names(in_not, acc, rej) },
            Cfg::Not(e) => e.names(true, acc, rej),
        }
    }
}
fn expected_kept(cfgs: &[Cfg], targets: &[char]) -> bool {
    if targets.is_empty() { return true; }
    let (mut acc, mut rej) = (vec![], vec![]);
    for c in cfgs { c.names(false, &mut acc, &mut rej); }
    !rej.iter().any(|r| targets.contains(r)) && (acc.is_empty() || acc.iter().any(|a| targets.contains(a)))
}
fn leaves() -> Vec<Cfg> { vec![Cfg::Os('a'), Cfg::Os('b'), Cfg::Feat, Cfg::Word] }
fn grow(base: &[Cfg]) -> Vec<Cfg> {
    let mut out = vec![];
    for e in base { out.push(Cfg::Not(Box::new(e.clone()))); out.push(Cfg::Any(vec![e.clone()])); out.push(Cfg::All(vec![e.clone()])); }
    for e in base { for f in base { out.push(Cfg::Any(vec![e.clone(), f.clone()])); out.push(Cfg::All(vec![e.clone(), f.clone()])); } }
    out
}
/// is the guarded member generated? placement: 0 field, 1 variant, 2 type, 3 struct-variant field
fn actually_kept(cfgs: &[Cfg], targets: &[char], placement: usize) -> Result<bool, String> {
    let attrs: String = cfgs.iter().map(|c| format!("#[cfg({})] ", c.text())).collect();
    kept_with_attrs(&attrs, targets, placement)
}
/// (attribute text, must the member be generated?) - skip markers in either spelling, in any attribute position
const SKIP_CASES: [(&str, bool); 11] = [
    ("#[serde(skip)]", false), ("#[typeshare(skip)]", false),
    ("#[serde(default)] #[serde(skip)]", false), ("#[serde(rename = \"x\")] #[typeshare(skip)]", false),
    ("#[serde(default, skip)]", false), ("#[doc = \"d\"] #[serde(skip)]", false), ("#[typeshare(skip)] #[serde(default)]", false),
    ("#[serde(default)]", true), ("#[serde(rename = \"skip\")]", true), ("#[doc = \"skip\"]", true), ("", true),
];
fn kept_with_attrs(attrs: &str, targets: &[char], placement: usize) -> Result<bool, String> {
    let src = match placement {
        0 => format!("#[typeshare]\npub struct S {{ pub keep: u8, {attrs} pub guarded: u8 }}\n"),
        1 => format!("#[typeshare]\npub enum E {{ Keep, {attrs} Guarded }}\n"),
        2 => format!("#[typeshare]\npub struct Keep {{ pub k: u8 }}\n#[typeshare]\n{attrs}\npub struct Guarded {{ pub g: u8 }}\n"),
        _ => format!("#[typeshare]\n#[serde(tag = \"t\", content = \"c\")]\npub enum E {{ V {{ keep: u8, {attrs} guarded: u8 }} }}\n"),
    };
    let ctx = ParseContext { target_os: targets.iter().map(|c| c.to_string()).collect(), ..Default::default() };
    let r = panic::catch_unwind(move || parse(&ctx, ParseFileContext { source_code: src, crate_name: CrateName::from("c".to_string()), file_name: "f.rs".into(), file_path: "f.rs".into() }));
    let d = match r { Err(_) => return Err("typeshare panicked".into()), Ok(Err(e)) => return Err(format!("parse error {}", e)), Ok(Ok(None)) => return Err("no data".into()), Ok(Ok(Some(d))) => d };
    Ok(match placement {
        0 => d.structs.iter().any(|s| s.fields.iter().any(|f| f.id.original == "guarded")),
        1 => d.enums.iter().any(|e| e.shared().variants.iter().any(|v| v.shared().id.original == "Guarded")),
        2 => d.structs.iter().any(|s| s.id.original == "Guarded"),
        _ => d.enums.iter().any(|e| e.shared().variants.iter().any(|v| match v { typeshare_core::rust_types::RustEnumVariant::AnonymousStruct { fields, .. } => fields.iter().any(|f| f.id.original == "guarded"), _ => false })),
    })
}
fn tos_case(cfgs: &[Cfg], targets: &[char], placement: usize) -> Option<String> {
    let want = expected_kept(cfgs, targets);
    match actually_kept(cfgs, targets, placement) {
        Err(e) => Some(e),
        Ok(got) => if got != want { Some(format!("(C13) member guarded by {} is {} with --target-os {:?}, the documented rule says {}", cfgs.iter().map(|c| format!("#[cfg({})]", c.text())).collect::<Vec<_>>().join(" "), if got { "generated" } else { "dropped" }, targets, if want { "generated" } else { "dropped" })) } else { None }
    }
}

// ---------------------------------------------------------------- C11: definition order vs references (independent oracle)
fn type_mentions(t: &typeshare_core::rust_types::RustType, out: &mut Vec<String>) {
    use typeshare_core::rust_types::{RustType, SpecialRustType};
    match t {
        RustType::Simple { id } => out.push(id.clone()),
        RustType::Generic { id, parameters } => { out.push(id.clone()); for p in parameters { type_mentions(p, out); } }
        RustType::Special(sp) => match sp {
            SpecialRustType::Vec(a) | SpecialRustType::Array(a, _) | SpecialRustType::Slice(a) | SpecialRustType::Option(a) => type_mentions(a, out),
            SpecialRustType::HashMap(a, b) => { type_mentions(a, out); type_mentions(b, out); }
            _ => {}
        },
    }
}
/// (name, names it refers to) for every item of the parsed file - read off the IR, independent of topsort.rs
fn item_refs(d: &ParsedData) -> Vec<(String, Vec<String>)> {
    use typeshare_core::rust_types::{RustEnumVariant};
    let mut v = vec![];
    for s in &d.structs { let mut m = vec![]; for f in &s.fields { type_mentions(&f.ty, &mut m); } v.push((s.id.renamed.clone(), m)); }
    for a in &d.aliases { let mut m = vec![]; type_mentions(&a.r#type, &mut m); v.push((a.id.renamed.clone(), m)); }
    for c in &d.consts { let mut m = vec![]; type_mentions(&c.r#type, &mut m); v.push((c.id.renamed.clone(), m)); }
    for e in &d.enums { let mut m = vec![]; for var in &e.shared().variants { match var {
        RustEnumVariant::Unit(_) => {}, RustEnumVariant::Tuple { ty, .. } => type_mentions(ty, &mut m),
        RustEnumVariant::AnonymousStruct { fields, .. } => for f in fields { type_mentions(&f.ty, &mut m); }, _ => {} } }
        v.push((e.shared().id.renamed.clone(), m)); }
    v
}
/// -> Some(description) when a definition is missing/duplicated, or (acyclic reference graph) precedes one it refers to
fn order_case(src: &str) -> Option<String> {
    use std::collections::{BTreeMap, HashMap};
    use typeshare_core::language::{Language, TypeScript};
    let d = match parse_named(src, "f.rs") { Some(d) => d, None => return Some("no parsed data".into()) };
    if !d.errors.is_empty() { return Some(format!("parse errors: {}", d.errors.len())); }
    let mut crates: BTreeMap<CrateName, ParsedData> = BTreeMap::new();
    let cn = d.crate_name.clone();
    *crates.entry(cn.clone()).or_default() += d;
    typeshare_core::reconcile::reconcile_aliases(&mut crates);
    let data = crates.remove(&cn).unwrap();
    let refs = item_refs(&data);
    let names: Vec<String> = refs.iter().map(|r| r.0.clone()).collect();
    let mut out: Vec<u8> = Vec::new();
    let mut lang = TypeScript { no_version_header: true, ..Default::default() };
    if let Err(e) = lang.generate_types(&mut out, &HashMap::new(), data) { return Some(format!("generation failed: {}", e)); }
    let out = String::from_utf8(out).unwrap();
    let pos = |n: &str| -> Vec<usize> { let mut p = vec![]; for kw in ["interface ", "enum ", "type ", "const "] { for pat in [format!("export {}{} ", kw, n), format!("export {}{}:", kw, n), format!("export {}{}<", kw, n)] { let mut from = 0; while let Some(i) = out[from..].find(&pat) { p.push(from + i); from += i + 1; } } } p.sort(); p.dedup(); p };
    for n in &names { let c = pos(n).len(); if c == 0 { return Some(format!("definition of {} is missing from the output", n)); } }
    // acyclic?
    let idx = |n: &str| names.iter().position(|x| x == n);
    let mut done = vec![false; names.len()];
    loop { let mut progress = false; for (i, (_, m)) in refs.iter().enumerate() { if !done[i] && m.iter().all(|d| match idx(d) { Some(j) => j == i || done[j], None => true }) { done[i] = true; progress = true; } } if !progress { break; } }
    if !done.iter().all(|x| *x) { return None; } // cyclic reference graph: only the permutation guarantee applies
    for (n, m) in &refs { for dep in m { if dep != n && idx(dep).is_some() { if pos(dep)[0] > pos(n)[0] { return Some(format!("{} is emitted before {} which it refers to", n, dep)); } } } }
    None
}

const WRAPPERS: [&str; 12] = ["T", "Vec<T>", "[T; 2]", "&'static [T]", "Option<T>", "HashMap<String, T>", "Wrap<T>", "Wrap<Vec<T>>", "Foreign<T>", "Vec<Option<T>>", "Wrap<Wrap<T>>", "Foreign<Foreign<T>>"];
const NODES: [&str; 5] = ["Aa", "Bb", "Cc", "Dd", "Ee"];
/// program with items Aa..Dd (n of them) whose references are the edges in `code` (bit i*n+j: i refers to j),
/// every reference wrapped in WRAPPERS[w]; holder: 0 struct field, 1 tuple variants, 2 struct-variant fields, 3 mixed by node
fn order_program(n: usize, code: u64, w: usize, holder: usize) -> String { order_program_renamed(n, code, w, holder, 0) }
/// like order_program; bit i of `mask` puts #[serde(rename = "<Name>Renamed")] on item i, bit n on the generic `Wrap`
fn order_program_renamed(n: usize, code: u64, w: usize, holder: usize, mask: u64) -> String {
    let mut src = String::from(if (mask >> n) & 1 == 1 { "#[typeshare]\n#[serde(rename = \"WrapRenamed\")]\npub struct Wrap<T> { pub t: T }\n" } else { "#[typeshare]\npub struct Wrap<T> { pub t: T }\n" });
    for i in 0..n {
        if (mask >> i) & 1 == 1 { src += &format!("#[serde(rename = \"{}Renamed\")]\n", NODES[i]); }
        let refs: Vec<String> = (0..n).filter(|j| (code >> (i * n + j)) & 1 == 1).map(|j| WRAPPERS[w].replace("T", NODES[j])).collect();
        let h = if holder == 3 { i % 3 } else { holder };
        if holder == 4 {
            // struct fields carrying a per-language type override: the ordering is shared by all languages, the reference still counts
            src += &format!("#[typeshare]\npub struct {} {{ {} pub own: u32 }}\n", NODES[i], refs.iter().enumerate().map(|(k, r)| format!("#[typeshare(typescript(type = \"any\"))] pub f{}: {}, ", k, r)).collect::<String>());
            continue;
        }
        if holder == 5 || holder == 6 {
            // self-referential enums: a self reference is not a cycle between distinct definitions, the other references still order
            let me = NODES[i];
            let body: String = if holder == 5 { refs.iter().enumerate().map(|(k, r)| format!("V{}(HashMap<{}, {}>), ", k, r, me)).collect() }
                else { refs.iter().enumerate().map(|(k, r)| format!("V{}({}), ", k, r)).collect::<String>() + &format!("Me(Vec<{}>), ", me) };
            src += &format!("#[typeshare]\n#[serde(tag = \"t\", content = \"c\")]\npub enum {} {{ {} Own(u32) }}\n", me, body);
            continue;
        }
        match h {
            0 => { src += &format!("#[typeshare]\npub struct {} {{ {} pub own: u32 }}\n", NODES[i], refs.iter().enumerate().map(|(k, r)| format!("pub f{}: {}, ", k, r)).collect::<String>()); }
            1 => { src += &format!("#[typeshare]\n#[serde(tag = \"t\", content = \"c\")]\npub enum {} {{ {} Own(u32) }}\n", NODES[i], refs.iter().enumerate().map(|(k, r)| format!("V{}({}), ", k, r)).collect::<String>()); }
            _ => { src += &format!("#[typeshare]\n#[serde(tag = \"t\", content = \"c\")]\npub enum {} {{ S {{ {} own: u32 }}, Own(u32) }}\n", NODES[i], refs.iter().enumerate().map(|(k, r)| format!("f{}: {}, ", k, r)).collect::<String>()); }
        }
    }
    src
}
fn dag_acyclic(n: usize, code: u64) -> bool {
    let mut done = vec![false; n];
    loop { let mut progress = false; for i in 0..n { if !done[i] && (0..n).all(|j| (code >> (i * n + j)) & 1 == 0 || (j != i && done[j])) { done[i] = true; progress = true; } } if !progress { break; } }
    done.iter().all(|x| *x)
}

// ---------------------------------------------------------------- C09: references use the name the definition is emitted under
/// -> Some(description) when, after reconcile_aliases, some type expression still mentions the Rust name of a same-file type
/// whose definition is emitted under a different (serde-renamed) name
fn refs_case(src: &str) -> Option<String> {
    use std::collections::BTreeMap;
    let d = match parse_named(src, "f.rs") { Some(d) => d, None => return Some("no parsed data".into()) };
    let mut crates: BTreeMap<CrateName, ParsedData> = BTreeMap::new();
    let cn = d.crate_name.clone();
    *crates.entry(cn.clone()).or_default() += d;
    typeshare_core::reconcile::reconcile_aliases(&mut crates);
    let data = crates.remove(&cn).unwrap();
    let mut renamed: Vec<(String, String)> = vec![];
    for s in &data.structs { if s.id.renamed != s.id.original { renamed.push((s.id.original.clone(), s.id.renamed.clone())); } }
    for e in &data.enums { let i = &e.shared().id; if i.renamed != i.original { renamed.push((i.original.clone(), i.renamed.clone())); } }
    for a in &data.aliases { if a.id.renamed != a.id.original { renamed.push((a.id.original.clone(), a.id.renamed.clone())); } }
    for (item, mentions) in item_refs(&data) {
        for m in mentions { if let Some((o, r)) = renamed.iter().find(|(o, _)| *o == m) { return Some(format!("{} still refers to `{}`, but that type is defined as `{}`", item, o, r)); } }
    }
    None
}

/// C09 across crates (folder mode): crate `app` imports a type that crate `model` defines under a serde-renamed name
fn refs_multi_crate(rename_in_app: bool) -> Option<String> {
    use std::collections::BTreeMap;
    let ctx = ParseContext { multi_file: true, ..Default::default() };
    let model = "#[typeshare]\n#[serde(rename = \"AccountStatus\")]\npub enum Status { Active, Closed }\n#[typeshare]\npub struct Plain { pub p: u32 }\n";
    let app = if rename_in_app {
        "use model::{Status, Plain};\n#[typeshare]\n#[serde(rename = \"AcctRenamed\")]\npub struct Account { pub status: Status, pub history: Vec<Status>, pub p: Plain }\n"
    } else {
        "use model::{Status, Plain};\n#[typeshare]\npub struct Account { pub status: Status, pub history: Vec<Status>, pub p: Plain }\n"
    };
    let mut crates: BTreeMap<CrateName, ParsedData> = BTreeMap::new();
    for (cn, src) in [("model", model), ("app", app)] {
        let d = parse(&ctx, ParseFileContext { source_code: src.to_string(), crate_name: CrateName::from(cn.to_string()), file_name: format!("{}.ts", cn), file_path: format!("{}/src/lib.rs", cn).into() }).ok().flatten()?;
        let k = d.crate_name.clone();
        *crates.entry(k).or_default() += d;
    }
    typeshare_core::reconcile::reconcile_aliases(&mut crates);
    let appd = crates.get(&CrateName::from("app".to_string()))?;
    for (item, mentions) in item_refs(appd) { if mentions.iter().any(|m| m == "Status") { return Some(format!("crate app: {} still refers to `Status`, but crate model defines that type as `AccountStatus`", item)); } }
    None
}
/// C09 for an enum turned into an alias by serialized_as, under a container rename_all: definition name vs references
fn refs_serialized_as() -> Option<String> {
    refs_case("#[typeshare(serialized_as = \"String\")]\n#[serde(rename_all = \"camelCase\")]\npub enum PaymentMethod { CreditCard, WireTransfer }\n#[typeshare(serialized_as = \"String\")]\n#[serde(rename_all = \"snake_case\")]\npub struct OrderId { pub v: u32 }\n#[typeshare]\npub struct Order { pub method: PaymentMethod, pub id: OrderId, pub all: Vec<PaymentMethod> }\n")
        .or_else(|| {
            // the alias must be defined under the name its users mention
            let d = parse_named("#[typeshare(serialized_as = \"String\")]\n#[serde(rename_all = \"camelCase\")]\npub enum PaymentMethod { CreditCard }\n", "f.rs")?;
            let a = d.aliases.first()?;
            if a.id.renamed != "PaymentMethod" { Some(format!("alias for enum PaymentMethod is defined as `{}` (rename_all applies to members, not to the type's own name)", a.id.renamed)) } else { None }
        })
}

// ---------------------------------------------------------------- C01 / C02: wire names are carried by the generated definitions
const WIRE_LANGS: [&str; 6] = ["typescript", "kotlin", "swift", "scala", "go", "python"];
fn generate_lang(lang: &str, src: &str) -> Result<String, String> {
    use std::collections::{BTreeMap, HashMap};
    use typeshare_core::language::{Go, Kotlin, Language, Python, Scala, Swift, TypeScript};
    let d = parse_named(src, "f.rs").ok_or("no parsed data")?;
    if !d.errors.is_empty() { return Err(format!("{} parse errors", d.errors.len())); }
    let mut crates: BTreeMap<CrateName, ParsedData> = BTreeMap::new();
    let cn = d.crate_name.clone();
    *crates.entry(cn.clone()).or_default() += d;
    typeshare_core::reconcile::reconcile_aliases(&mut crates);
    let data = crates.remove(&cn).unwrap();
    let mut out: Vec<u8> = Vec::new();
    let mut l: Box<dyn Language> = match lang {
        "typescript" => Box::new(TypeScript { no_version_header: true, ..Default::default() }),
        "kotlin" => Box::new(Kotlin { package: "p".into(), no_version_header: true, ..Default::default() }),
        "swift" => Box::new(Swift { no_version_header: true, ..Default::default() }),
        "scala" => Box::new(Scala { package: "p".into(), no_version_header: true, ..Default::default() }),
        "go" => Box::new(Go { package: "p".into(), no_version_header: true, ..Default::default() }),
        _ => Box::new(Python { no_version_header: true, ..Default::default() }),
    };
    l.generate_types(&mut out, &HashMap::new(), data).map_err(|e| e.to_string())?;
    String::from_utf8(out).map_err(|e| e.to_string())
}
/// the key occurs in the output as a whole token: quoted, or as an identifier not glued to other identifier characters
fn carries(out: &str, key: &str) -> bool {
    let b = out.as_bytes();
    let mut from = 0;
    while let Some(i) = out[from..].find(key) {
        let (s, e) = (from + i, from + i + key.len());
        let ok_l = s == 0 || !(b[s - 1].is_ascii_alphanumeric() || b[s - 1] == b'_');
        let ok_r = e >= b.len() || !(b[e].is_ascii_alphanumeric() || b[e] == b'_');
        if ok_l && ok_r { return true; }
        from = s + 1;
    }
    false
}
const WIRE_RULES: [&str; 9] = ["", "lowercase", "UPPERCASE", "PascalCase", "camelCase", "snake_case", "SCREAMING_SNAKE_CASE", "kebab-case", "SCREAMING-KEBAB-CASE"];
const WIRE_FIELDS: [&str; 6] = ["id", "user_name", "r#type", "a1", "x_y_z", "is_ok"];
const WIRE_VARIANTS: [&str; 4] = ["Active", "InProgress", "HttpError", "V2"];
fn serde_name(rule: &str, pos: &str, ident: &str) -> String { serde_rename(rule, pos, ident).unwrap_or_else(|_| ident.to_string()) }
/// kind 0: struct fields (C01), 1: struct-variant fields under a variant-level rename_all (C01), 2: unit enum (C02), 3: adjacently tagged enum (C02),
/// 4: struct fields with the rule in a second serde attribute (C01)
fn wire_case(kind: usize, rule: &str, lang: &str) -> Option<String> {
    let ra = if rule.is_empty() { String::new() } else { format!("#[serde(rename_all = \"{}\")]\n", rule) };
    let mut expect: Vec<(String, String)> = vec![]; // (what, key)
    let src = match kind {
        0 => {
            for f in WIRE_FIELDS { expect.push((format!("field {}", f), serde_name(rule, "field", f))); }
            expect.push(("field other_field with serde(rename = \"custom-key\")".into(), "custom-key".into()));
            expect.push(("field second with serde(rename = \"renamed_field\")".into(), "renamed_field".into()));
            format!("#[typeshare]\n{}pub struct Rec {{ {} #[serde(rename = \"custom-key\")] pub other_field: bool, #[serde(rename = \"renamed_field\")] pub second: bool }}\n", ra, WIRE_FIELDS.iter().map(|f| format!("pub {}: u32, ", f)).collect::<String>())
        }
        1 => {
            for f in WIRE_FIELDS { expect.push((format!("struct-variant field {}", f), serde_name(rule, "field", f))); }
            format!("#[typeshare]\n#[serde(tag = \"kind\", content = \"payload\")]\npub enum Msg {{ {}Moved {{ {} }}, Quit }}\n", ra.replace("\n", " "), WIRE_FIELDS.iter().map(|f| format!("{}: u32, ", f)).collect::<String>())
        }
        4 => {
            // the container rule sits in a second #[serde(..)] attribute, and the attributes come in another order
            for f in WIRE_FIELDS { expect.push((format!("field {} (rename_all in a second serde attribute)", f), serde_name(rule, "field", f))); }
            format!("#[serde(default)]\n#[typeshare]\n#[derive(Default)]\n{}pub struct Rec {{ {} }}\n", ra, WIRE_FIELDS.iter().map(|f| format!("pub {}: u32, ", f)).collect::<String>())
        }
        2 => {
            for v in WIRE_VARIANTS { expect.push((format!("variant {}", v), serde_name(rule, "variant", v))); }
            expect.push(("variant Odd with serde(rename = \"custom-variant\")".into(), "custom-variant".into()));
            format!("#[typeshare]\n{}pub enum Mode {{ {} #[serde(rename = \"custom-variant\")] Odd }}\n", ra, WIRE_VARIANTS.iter().map(|v| format!("{}, ", v)).collect::<String>())
        }
        _ => {
            for v in WIRE_VARIANTS { expect.push((format!("variant {}", v), serde_name(rule, "variant", v))); }
            expect.push(("content key".into(), "payload_key".into()));
            if ["typescript", "swift", "go", "python"].contains(&lang) { expect.push(("tag key".into(), "kind_key".into())); }
            let rule_attr = if rule.is_empty() { String::new() } else { format!(", rename_all = \"{}\"", rule) };
            format!("#[typeshare]\n#[serde(tag = \"kind_key\", content = \"payload_key\"{})]\npub enum Msg {{ Active(String), InProgress, HttpError {{ code: u32 }}, V2(u32) }}\n", rule_attr)
        }
    };
    let s2 = src.clone(); let l2 = lang.to_string();
    let out = match panic::catch_unwind(move || generate_lang(&l2, &s2)) { Ok(Ok(o)) => o, Ok(Err(e)) => return Some(format!("generation failed: {}", e)), Err(_) => return Some("generation panicked".into()) };
    if kind == 3 && lang == "go" {
        // Go writes the tag / content keys into three struct tags each (type, decoder, encoder): every one must be serde's key
        let n_tag = out.matches("json:\"kind_key\"").count();
        let n_content = out.matches("json:\"payload_key\"").count() + out.matches("json:\"payload_key,omitempty\"").count();
        if n_tag != 3 || n_content != 2 { return Some(format!("go: the tag key is bound in {} of 3 and the content key in {} of 2 struct tags of the generated (un)marshaller", n_tag, n_content)); }
    }
    for (what, key) in expect {
        if lang == "scala" && key.contains('-') { continue; } // Scala carries no key binding: only keys usable as identifiers are in scope
        // Scala: the case-class parameter name IS the key (back-quoted when it is a keyword)
        if lang == "scala" && kind <= 1 && !(out.contains(&format!("\t{}: ", key)) || out.contains(&format!("\t`{}`: ", key))) {
            return Some(format!("scala output has no case-class parameter named `{}` for {} (the parameter name is the JSON key)", key, what));
        }
        if !carries(&out, &key) { return Some(format!("{} output does not carry the wire name `{}` of {} (serde uses that key)", lang, key, what)); }
    }
    None
}

fn permutations(n: usize) -> Vec<Vec<usize>> {
    if n == 0 { return vec![vec![]]; }
    let mut out = vec![];
    for p in permutations(n - 1) { for pos in 0..n { let mut q = p.clone(); q.insert(pos, n - 1); out.push(q); } }
    out
}

fn main() {
    panic::set_hook(Box::new(|_| {}));
    let a: Vec<String> = std::env::args().collect();
    match a.get(1).map(|s| s.as_str()) {
        Some("rename") => {
            // rename <rule> <field|variant> <ident>  -> exit 1 when typeshare and serde disagree (or typeshare panics)
            let (t, s) = (typeshare_rename(&a[2], &a[3], &a[4]), serde_rename(&a[2], &a[3], &a[4]));
            println!("{{\"rule\": {:?}, \"position\": {:?}, \"ident\": {:?}, \"typeshare\": {:?}, \"serde\": {:?}}}", a[2], a[3], a[4], t, s);
            let bad = match (&t, &s) { (Ok(x), Ok(y)) => x != y, (Err(_), _) => true, (Ok(_), Err(_)) => false };
            std::process::exit(if bad { 1 } else { 0 });
        }
        Some("merge") => {
            // merge <file.rs>...  -> exit 1 when two arrival orders of the same per-file results give different output bytes
            let files: Vec<(String, String)> = a[2..].iter().map(|p| (p.clone(), std::fs::read_to_string(p).expect("read"))).collect();
            let base = panic::catch_unwind(|| fold_and_generate(&files, &(0..files.len()).collect::<Vec<_>>()));
            let base = match base { Ok(Ok(b)) => b, _ => { println!("{{\"error\": \"generation failed or panicked\"}}"); std::process::exit(2); } };
            for p in permutations(files.len()) {
                let f2 = files.clone(); let p2 = p.clone();
                let other = panic::catch_unwind(move || fold_and_generate(&f2, &p2));
                match other {
                    Ok(Ok(o)) if o == base => {}
                    _ => { println!("{{\"files\": {:?}, \"order_a\": {:?}, \"order_b\": {:?}, \"differs\": true}}", a[2..].to_vec(), (0..files.len()).collect::<Vec<_>>(), p); std::process::exit(1); }
                }
            }
            println!("{{\"files\": {:?}, \"orders\": {}, \"differs\": false}}", a[2..].to_vec(), permutations(files.len()).len());
            std::process::exit(0);
        }
        Some("merge-search") | Some("merge-check") => {
            let report = |k: usize, p: &Vec<usize>, m: String| { println!("WITNESS {{\"input\": {{\"distribution\": {}, \"order\": {:?}}}, \"fails\": {:?}}}", k, p, m); std::process::exit(1); };
            if a[1] == "merge-check" {
                let k: usize = a[2].parse().unwrap();
                let p: Vec<usize> = a[3].split(',').map(|x| x.trim().parse().unwrap()).collect();
                if k == 100 && std::env::var("VERIF_SHOW").is_ok() { println!("{}", imports_generate(&p, 0).unwrap()); }
                if k == 100 { if let Some(m) = imports_case(&p, 40) { report(k, &p, m); } println!("input passes"); std::process::exit(0); }
                if let Some(m) = merge_case(k, &p) { report(k, &p, m); }
                println!("input passes"); std::process::exit(0);
            }
            let mut tried = 0;
            for k in 0..8 { for p in permutations(NFILES) { tried += 1; if let Some(m) = merge_case(k, &p) { report(k, &p, m); } } }
            // distribution 100: the import lines of one-module-per-crate output (4 crates, 8 files): every arrival order, and the
            // identity order repeated with fresh hash tables
            let thorough = std::env::var("VERIF_TIER").map_or(false, |t| t == "thorough");
            let id: Vec<usize> = (0..IMPORT_FILES.len()).collect();
            let pid_ = std::env::var("VERIF_PID").unwrap_or_default();
            let import_lines = pid_ != "C03" && pid_ != "C11";     // import lines are C06's (determinism) business
            if import_lines { if let Some(m) = imports_case(&id, 40) { report(100, &id, m); } }
            let mut orders = 0;
            // arrival order only matters inside one crate's accumulator: every order of the application crate's 5 files, the
            // library files before them (and, thorough tier, after them)
            for q in permutations(5) {
                if !import_lines { break; }
                let app: Vec<usize> = q.iter().map(|x| x + 3).collect();
                let mut variants = vec![[vec![0, 1, 2], app.clone()].concat()];
                if thorough { variants.push([app.clone(), vec![2, 1, 0]].concat()); variants.push([vec![1], app.clone(), vec![0, 2]].concat()); }
                for p in variants { orders += 1; if let Some(m) = imports_case(&p, 1) { report(100, &p, m); } }
            }
            println!("no failing input among {} (distribution of {} items over 3 files, arrival order) pairs; every output also compared with distribution 0; import lines: {} arrival orders of 8 files in 4 crates x 2 languages + 40 repeats with fresh hash seeds", tried, CORPUS.len(), orders);
            std::process::exit(0);
        }
        Some("codable") => {
            // codable : run Swift::post_generation twice into a fresh folder; exit 1 when the second (unchanged) run touches Codable.swift
            use typeshare_core::language::{Language, Swift};
            use std::sync::atomic::AtomicBool;
            let dir = std::env::temp_dir().join(format!("verif-replay-codable-{}", std::process::id()));
            let _ = std::fs::remove_dir_all(&dir);
            std::fs::create_dir_all(&dir).unwrap();
            let mk = || Swift { multi_file: true, should_emit_codable_void: AtomicBool::new(true), ..Default::default() };
            mk().post_generation(&dir.to_string_lossy()).unwrap();
            let f = dir.join("Codable.swift");
            let (m1, c1) = (std::fs::metadata(&f).unwrap().modified().unwrap(), std::fs::read(&f).unwrap());
            std::thread::sleep(std::time::Duration::from_millis(60));
            mk().post_generation(&dir.to_string_lossy()).unwrap();
            let (m2, c2) = (std::fs::metadata(&f).unwrap().modified().unwrap(), std::fs::read(&f).unwrap());
            let _ = std::fs::remove_dir_all(&dir);
            println!("{{\"file\": \"Codable.swift\", \"content_identical\": {}, \"mtime_preserved\": {}}}", c1 == c2, m1 == m2);
            std::process::exit(if c1 == c2 && m1 == m2 { 0 } else { 1 });
        }
        Some("tos-search") | Some("tos-check") => {
            let l0 = leaves(); let l1 = grow(&l0);
            let mut d1: Vec<Cfg> = l0.clone(); d1.extend(l1.clone());
            let l2 = grow(&d1);
            let mut all: Vec<Vec<Cfg>> = vec![];
            for e in d1.iter().chain(l2.iter()) { all.push(vec![e.clone()]); }
            // depth 3: one more not / any / all around every depth-2 expression that contains a not
            for e in l2.iter().filter(|e| e.text().contains("not(")) { all.push(vec![Cfg::Not(Box::new(e.clone()))]); all.push(vec![Cfg::Any(vec![e.clone()])]); }
            // two cfg attributes on the same member
            for e in d1.iter() { for f in d1.iter() { all.push(vec![e.clone(), f.clone()]); } }
            let target_sets: Vec<Vec<char>> = vec![vec![], vec!['a'], vec!['b'], vec!['c'], vec!['a', 'b'], vec!['a', 'c'], vec!['b', 'c'], vec!['a', 'b', 'c']];
            let report = |i: usize, t: usize, p: usize, m: String| { println!("WITNESS {{\"input\": {{\"case\": {}, \"targets\": {}, \"placement\": {}}}, \"fails\": {:?}}}", i, t, p, m); std::process::exit(1); };
            if a[1] == "tos-check" {
                let (i, t, p): (usize, usize, usize) = (a[2].parse().unwrap(), a[3].parse().unwrap(), a[4].parse().unwrap());
                if i >= 1_000_000 {
                    let (attrs, want) = SKIP_CASES[i - 1_000_000];
                    match kept_with_attrs(attrs, &target_sets[t], p) { Ok(got) if got == want => {}, Ok(_) => report(i, t, p, format!("member with attributes `{}` generated/dropped wrongly", attrs)), Err(e) => report(i, t, p, e) }
                    println!("input passes"); std::process::exit(0);
                }
                if let Some(m) = tos_case(&all[i], &target_sets[t], p) { report(i, t, p, m); }
                println!("input passes"); std::process::exit(0);
            }
            let mut tried = 0u64;
            // the search serves two properties; when the check says which one it decides (VERIF_PID) only that property's cases run
            let pid = std::env::var("VERIF_PID").unwrap_or_default();
            // C03: skip markers (case numbers 1_000_000 + k)
            for (k, (attrs, want)) in SKIP_CASES.iter().enumerate() { if pid == "C13" { break; } for p in [0usize, 1, 3] { for (t, ts) in target_sets.iter().enumerate().take(2) {
                tried += 1;
                match kept_with_attrs(attrs, ts, p) {
                    Err(e) => report(1_000_000 + k, t, p, e),
                    Ok(got) => if got != *want { report(1_000_000 + k, t, p, format!("member with attributes `{}` is {}, but must be {} (C03: skip markers serde(skip) / typeshare(skip) in any attribute)", attrs, if got { "generated" } else { "dropped" }, if *want { "generated" } else { "dropped" })) },
                }
            } } }
            for (i, cfgs) in all.iter().enumerate() { if pid == "C03" { break; } for (t, ts) in target_sets.iter().enumerate() {
                let thorough = std::env::var("VERIF_TIER").map_or(false, |t| t == "thorough");
                for p in 0..4 { if p > 0 && i % 7 != 0 && !thorough { continue; }   // every case at field level; every 7th (thorough: every) also at the other levels
                    tried += 1;
                    if let Some(m) = tos_case(cfgs, ts, p) { report(i, t, p, m); } }
            } }
            println!("no failing input among {} (cfg attribute set, target list, placement) triples: {} attribute sets up to depth 3", tried, all.len());
            std::process::exit(0);
        }
        Some("type-search") | Some("type-check") => {
            let thorough = std::env::var("VERIF_TIER").map_or(false, |t| t == "thorough");
            let report = |i: usize, th: bool, m: String| { println!("WITNESS {{\"input\": {{\"index\": {}, \"thorough_corpus\": {}}}, \"fails\": {:?}}}", i, th, m); std::process::exit(1); };
            if a[1] == "type-check" {
                let i: usize = a[2].parse().unwrap();
                let th = a.get(3).map_or(false, |x| x == "true");
                if i >= 1_000_000 { if let Some(m) = helper_case(i - 1_000_000) { report(i, th, m); } println!("input passes"); std::process::exit(0); }
                let corpus = type_corpus(th);
                let te = corpus[i].clone();
                match type_parse_batch(&[te.clone()]) { Err(e) => report(i, th, format!("`{}`: {}", te.src(), e)), Ok(irs) => if let Some(m) = type_case(&te, &irs[0]) { report(i, th, m); } }
                println!("input passes"); std::process::exit(0);
            }
            for k in 0..HELPER_PROGRAMS.len() { if let Some(m) = helper_case(k) { report(1_000_000 + k, thorough, m); } }
            let corpus = type_corpus(thorough);
            let mut n = 0;
            for (b, batch) in corpus.chunks(100).enumerate() {
                match type_parse_batch(batch) {
                    Err(_) => { for (j, te) in batch.iter().enumerate() { if let Err(e) = type_parse_batch(&[te.clone()]) { report(b * 100 + j, thorough, format!("`{}`: {}", te.src(), e)); } } }
                    Ok(irs) => for (j, te) in batch.iter().enumerate() { n += 1; if let Some(m) = type_case(te, &irs[j]) { report(b * 100 + j, thorough, m); } }
                }
            }
            println!("no failing input among {} type expressions (depth <= 3 over 18 leaves and 14 constructors, plus qualified paths / scalars and depth 4-5 chains) x 4 positions x 6 languages x plain / prefix / type_mappings; + 2 programs whose struct-variant helper types must be declared and referred to with the same generic parameters (Kotlin, Swift, Scala)", n);
            std::process::exit(0);
        }
        Some("opt-search") | Some("opt-check") => {
            let all = opt_all_cases();
            let report = |i: usize, m: String| { println!("WITNESS {{\"input\": {{\"case\": {}}}, \"fails\": {:?}}}", i, m); std::process::exit(1); };
            if a[1] == "opt-check" {
                let i: usize = a[2].parse().unwrap();
                if i >= 1_000_000 {
                    // the recorded Scala finding: exit 1 while it reproduces
                    let src = "#[typeshare]\npub struct S { #[serde(default)] pub dflt: u32 }\n";
                    let d = parse_named(src, "f.rs").unwrap();
                    let mut out: Vec<u8> = Vec::new();
                    use typeshare_core::language::{Language, Scala};
                    Scala { package: "p".into(), no_version_header: true, ..Default::default() }.generate_types(&mut out, &std::collections::HashMap::new(), d).unwrap();
                    let out = String::from_utf8(out).unwrap();
                    if out.contains("dflt: UInt = _") && !out.contains("Option[UInt] = None") { report(i, "scala: non-Option member with serde(default) is written `dflt: UInt = _`, not as an optional member `Option[UInt] = None`".into()); }
                    println!("input passes"); std::process::exit(0);
                }
                if let Some(m) = opt_case(&[all[i]]) { report(i, m); }
                println!("input passes"); std::process::exit(0);
            }
            // all cases in batches (one program per batch), a failing batch is re-run member by member for the witness
            let mut n = 0;
            for (b, batch) in all.chunks(54).enumerate() {
                n += batch.len();
                if opt_case(batch).is_some() { for (j, c) in batch.iter().enumerate() { if let Some(m) = opt_case(&[*c]) { report(b * 54 + j, m); } } if let Some(m) = opt_case(batch) { report(b * 54, m); } }
            }
            println!("no failing input among {} members (7 base types x 6 Option / smart-pointer shapes x 9 attribute forms incl. per-language type overrides) x struct field and struct-variant field x 6 languages", n);
            std::process::exit(0);
        }
        Some("doc-search") | Some("doc-check") => {
            let report = |d: usize, f: usize, m: String| { println!("WITNESS {{\"input\": {{\"doc\": {}, \"form\": {}}}, \"fails\": {:?}}}", d, f, m); std::process::exit(1); };
            if a[1] == "doc-check" {
                let (d, f): (usize, usize) = (a[2].parse().unwrap(), a[3].parse().unwrap());
                if let Some(m) = doc_case(d, f) { report(d, f, m); }
                println!("input passes"); std::process::exit(0);
            }
            let mut n = 0;
            for d in 0..DOC_TEXTS.len() { for f in 0..3 { if doc_program(d, f).is_some() { n += 1; if let Some(m) = doc_case(d, f) { report(d, f, m); } } } }
            println!("no failing input among {} (doc text, spelling) pairs x 12 documentable positions x 6 languages, plus the same in godoc style (doc text starts with the item name, names end in `Id`, Go with an acronym list)", n);
            std::process::exit(0);
        }
        Some("helper-search") | Some("helper-check") => {
            let report = |t: usize, n: usize, p: usize, m: String| { println!("WITNESS {{\"input\": {{\"trigger\": {}, \"nest\": {}, \"position\": {}}}, \"fails\": {:?}}}", t, n, p, m); std::process::exit(1); };
            if a[1] == "helper-check" {
                let (t, n, p): (usize, usize, usize) = (a[2].parse().unwrap(), a[3].parse().unwrap(), a[4].parse().unwrap());
                if t >= 2000 { if let Some(m) = ts_mapped_case(n, p) { report(t, n, p, m); } println!("input passes"); std::process::exit(0); }
                if t >= 1000 { if let Some(m) = typevar_case(n, p) { report(t, n, p, m); } println!("input passes"); std::process::exit(0); }
                if let Some(m) = helper_case2(t, n, p).or_else(|| helper_extra(t, n, p)) { report(t, n, p, m); }
                println!("input passes"); std::process::exit(0);
            }
            let mut k = 0;
            for t in 0..HELPER_TRIGGERS.len() { for n in 0..HELPER_NEST.len() { for p in 0..5 { k += 1; if let Some(m) = helper_case2(t, n, p).or_else(|| helper_extra(t, n, p)) { report(t, n, p, m); } } } }
            // positions 3 - 5 (inside Vec, tuple-variant payload, alias target) are the recorded finding kf-c12-ts-mapped-library-type-not-a-field: carved out by
            // input here, replayed on every run through `helper-check 2000 <m> <p>`
            for m in 0..TS_MAPPED.len() { for p in 0..3 { k += 1; if let Some(msg) = ts_mapped_case(m, p) { report(2000, m, p, msg); } } }
            for n in 0..TYPEVAR_NEST.len() { for sh in 0..5 { if sh >= 3 && n > 1 { continue; } k += 1; if let Some(m) = typevar_case(n, sh) { report(1000, n, sh, m); } } }
            println!("no failing input among {} programs (8 trigger types x 9 nestings x 5 positions, + 8 generic-parameter nestings x 3 shapes + 4 unused-parameter structs, + 2 mapped library types x 3 field positions for TypeScript) x 6 languages and 4 further configurations", k);
            std::process::exit(0);
        }
        Some("wire-search") | Some("wire-check") => {
            let report = |kind: usize, r: usize, l: usize, m: String| { println!("WITNESS {{\"input\": {{\"kind\": {}, \"rule\": {}, \"lang\": {}, \"rule_text\": {:?}, \"lang_text\": {:?}}}, \"fails\": {:?}}}", kind, r, l, WIRE_RULES[r], WIRE_LANGS[l], m); std::process::exit(1); };
            if a[1] == "wire-check" {
                let (kind, r, l): (usize, usize, usize) = (a[2].parse().unwrap(), a[3].parse().unwrap(), a[4].parse().unwrap());
                if let Some(m) = wire_case(kind, WIRE_RULES[r], WIRE_LANGS[l]) { report(kind, r, l, m); }
                println!("input passes"); std::process::exit(0);
            }
            let kinds: Vec<usize> = match a.get(2).map(|s| s.as_str()) { Some("C01") => vec![0, 1, 4], Some("C02") => vec![2, 3], _ => vec![0, 1, 2, 3, 4] };
            let mut tried = 0;
            for kind in kinds { for r in 0..WIRE_RULES.len() { for l in 0..WIRE_LANGS.len() {
                tried += 1;
                if let Some(m) = wire_case(kind, WIRE_RULES[r], WIRE_LANGS[l]) { report(kind, r, l, m); }
            } } }
            println!("no failing input among {} (shape, rename_all rule, language) generations; every expected serde key must occur as a whole token", tried);
            std::process::exit(0);
        }
        Some("refs-search") | Some("refs-check") => {
            let report = |n: usize, code: u64, w: usize, h: usize, mask: u64, m: String| { println!("WITNESS {{\"input\": {{\"items\": {}, \"edges_code\": {}, \"wrapper\": {}, \"holder\": {}, \"renamed_mask\": {}, \"wrapper_text\": {:?}}}, \"fails\": {:?}}}", n, code, w, h, mask, WRAPPERS[w], m); std::process::exit(1); };
            if a[1] == "refs-check" && a[2] == "extra" {
                let r = match a[3].as_str() { "0" => refs_multi_crate(false), "1" => refs_multi_crate(true), _ => refs_serialized_as() };
                if let Some(m) = r { println!("WITNESS {{\"input\": {{\"extra_program\": {}}}, \"fails\": {:?}}}", a[3], m); std::process::exit(1); }
                println!("input passes"); std::process::exit(0);
            }
            if a[1] == "refs-check" {
                let (n, code, w, h, mask): (usize, u64, usize, usize, u64) = (a[2].parse().unwrap(), a[3].parse().unwrap(), a[4].parse().unwrap(), a[5].parse().unwrap(), a[6].parse().unwrap());
                let src = order_program_renamed(n, code, w, h, mask);
                if let Ok(Some(m)) = panic::catch_unwind(move || refs_case(&src)) { report(n, code, w, h, mask, m); }
                println!("input passes"); std::process::exit(0);
            }
            let mut tried = 0u64;
            // fixed extra programs: two crates with an imported renamed type; serialized_as + rename_all
            for (k, f) in [(0usize, refs_multi_crate(false)), (1, refs_multi_crate(true)), (2, refs_serialized_as())] {
                tried += 1;
                if let Some(m) = f { println!("WITNESS {{\"input\": {{\"extra_program\": {}}}, \"fails\": {:?}}}", k, m); std::process::exit(1); }
            }
            for n in 2..=3usize { for code in 0..(1u64 << (n * n)) {
                if !dag_acyclic(n, code) || code == 0 { continue; }
                for w in 0..WRAPPERS.len() { for h in 0..4 { for mask in 1..(1u64 << (n + 1)) {
                    tried += 1;
                    let src = order_program_renamed(n, code, w, h, mask);
                    match panic::catch_unwind(move || refs_case(&src)) { Ok(None) => {}, Ok(Some(m)) => report(n, code, w, h, mask, m), Err(_) => report(n, code, w, h, mask, "panicked".into()) }
                } } }
            } }
            println!("no failing input among {} programs (all DAGs on 2..3 items x {} reference positions x 4 item shapes x every subset of items carrying serde(rename))", tried, WRAPPERS.len());
            std::process::exit(0);
        }
        Some("refs") => {
            let src = std::fs::read_to_string(&a[2]).expect("read");
            match panic::catch_unwind(move || refs_case(&src)) {
                Ok(None) => { println!("{{\"file\": {:?}, \"references_ok\": true}}", a[2]); std::process::exit(0); }
                Ok(Some(m)) => { println!("{{\"file\": {:?}, \"fails\": {:?}}}", a[2], m); std::process::exit(1); }
                Err(_) => { println!("{{\"file\": {:?}, \"fails\": \"panicked\"}}", a[2]); std::process::exit(1); }
            }
        }
        Some("order") => {
            // order <file.rs> : exit 1 when (acyclic reference graph) some definition precedes a definition it refers to
            let src = std::fs::read_to_string(&a[2]).expect("read");
            let r = panic::catch_unwind(move || order_case(&src));
            match r { Err(_) => { println!("{{\"file\": {:?}, \"fails\": \"panicked\"}}", a[2]); std::process::exit(1); }
                Ok(Some(m)) => { println!("{{\"file\": {:?}, \"fails\": {:?}}}", a[2], m); std::process::exit(1); }
                Ok(None) => { println!("{{\"file\": {:?}, \"ordered\": true}}", a[2]); std::process::exit(0); } }
        }
        Some("order-search") | Some("order-check") => {
            let report = |n: usize, code: u64, w: usize, h: usize, m: String| { println!("WITNESS {{\"input\": {{\"items\": {}, \"edges_code\": {}, \"wrapper\": {}, \"holder\": {}, \"wrapper_text\": {:?}}}, \"fails\": {:?}}}", n, code, w, h, WRAPPERS[w], m); std::process::exit(1); };
            if a[1] == "order-check" {
                let (n, code, w, h): (usize, u64, usize, usize) = (a[2].parse().unwrap(), a[3].parse().unwrap(), a[4].parse().unwrap(), a[5].parse().unwrap());
                let src = order_program(n, code, w, h);
                if let Ok(Some(m)) = panic::catch_unwind(move || order_case(&src)) { report(n, code, w, h, m); }
                println!("input passes"); std::process::exit(0);
            }
            let mut tried = 0u64;
            let thorough = std::env::var("VERIF_TIER").map_or(false, |t| t == "thorough");
            for n in 2..=(if thorough { 5usize } else { 4usize }) { for code in 0..(1u64 << (n * n)) {
                if !dag_acyclic(n, code) { continue; }
                for w in 0..WRAPPERS.len() { for h in 0..7 {
                    if h >= 4 && n > 3 { continue; }
                    if n == 4 && h != 0 && h != 3 && !thorough { continue; }
                    if n == 5 && (h != 3 || w % 3 != (code % 3) as usize) { continue; }
                    tried += 1;
                    let src = order_program(n, code, w, h);
                    match panic::catch_unwind(move || order_case(&src)) { Ok(None) => {}, Ok(Some(m)) => report(n, code, w, h, m), Err(_) => report(n, code, w, h, "panicked".into()) }
                } }
            } }
            println!("no failing input among {} programs (all DAGs on 2..4 items x {} reference positions x 7 item shapes incl. self-referential enums)", tried, WRAPPERS.len());
            std::process::exit(0);
        }
        _ => { eprintln!("usage: verif-replay rename <rule> <field|variant> <ident>"); std::process::exit(2); }
    }
}
