//! Replays concrete inputs against the REAL typeshare crates (path dependencies on /repo) — used for known-finding
//! witnesses and for end-to-end replays of counterexamples.  It never decides a property.
#[allow(dead_code)]
#[path = "../../vendor/serde_derive-1.0.214/case.rs"]
mod case;

use std::panic;
use typeshare_core::context::{ParseContext, ParseFileContext};
use typeshare_core::language::CrateName;
use typeshare_core::parser::{parse, ParsedData};

fn parse_src(src: &str) -> Option<ParsedData> {
    let ctx = ParseContext::default();
    parse(
        &ctx,
        ParseFileContext {
            source_code: src.to_string(),
            crate_name: CrateName::from("c".to_string()),
            file_name: "f.rs".into(),
            file_path: "f.rs".into(),
        },
    )
    .ok()
    .flatten()
}

/// typeshare's name for `ident` in field / variant position under `rule`, through the public parser
fn typeshare_rename(rule: &str, pos: &str, ident: &str) -> Result<String, String> {
    let src = if pos == "field" {
        format!("#[typeshare]\n#[serde(rename_all = \"{rule}\")]\nstruct S {{ {ident}: u8 }}\n")
    } else {
        format!("#[typeshare]\n#[serde(rename_all = \"{rule}\")]\nenum E {{ {ident} }}\n")
    };
    let r = panic::catch_unwind(|| parse_src(&src));
    match r {
        Err(_) => Err("typeshare panicked".into()),
        Ok(None) => Err("typeshare produced no data (parse error)".into()),
        Ok(Some(d)) => {
            if pos == "field" {
                d.structs.first().and_then(|s| s.fields.first()).map(|f| f.id.renamed.clone()).ok_or("no field".into())
            } else {
                d.enums.first().and_then(|e| e.shared().variants.first().map(|v| v.shared().id.renamed.clone())).ok_or("no variant".into())
            }
        }
    }
}

fn serde_rename(rule: &str, pos: &str, ident: &str) -> Result<String, String> {
    let ident = ident.strip_prefix("r#").unwrap_or(ident).to_string();
    let rule = match case::RenameRule::from_str(rule) { Ok(r) => r, Err(_) => return Ok(ident) };
    let pos = pos.to_string();
    panic::catch_unwind(move || if pos == "field" { rule.apply_to_field(&ident) } else { rule.apply_to_variant(&ident) })
        .map_err(|_| "serde_derive's case.rs panicked (rustc would reject the derive)".to_string())
}

fn parse_named(src: &str, file_name: &str) -> Option<ParsedData> {
    let ctx = ParseContext::default();
    parse(&ctx, ParseFileContext { source_code: src.to_string(), crate_name: CrateName::from("c".to_string()),
        file_name: file_name.into(), file_path: file_name.into() }).ok().flatten()
}

/// Fold per-file results in the given order exactly as cli/src/parse.rs's collector does (`*entry.or_default() += data`),
/// reconcile, and generate TypeScript: returns the output bytes.
fn fold_and_generate(files: &[(String, String)], order: &[usize]) -> Result<String, String> {
    use std::collections::{BTreeMap, HashMap};
    use typeshare_core::language::{Language, TypeScript};
    let mut crates: BTreeMap<CrateName, ParsedData> = BTreeMap::new();
    for &i in order {
        let (name, src) = &files[i];
        if let Some(d) = parse_named(src, name) {
            let cn = d.crate_name.clone();
            *crates.entry(cn).or_default() += d;
        }
    }
    typeshare_core::reconcile::reconcile_aliases(&mut crates);
    let mut out: Vec<u8> = Vec::new();
    for (_, data) in crates {
        let mut lang = TypeScript { no_version_header: true, ..Default::default() };
        lang.generate_types(&mut out, &HashMap::new(), data).map_err(|e| e.to_string())?;
    }
    String::from_utf8(out).map_err(|e| e.to_string())
}

/// like fold_and_generate, but over in-memory sources, also returning the number of recorded parse errors
fn fold_mem(files: &[String], order: &[usize]) -> Result<(String, usize), String> {
    use std::collections::{BTreeMap, HashMap};
    use typeshare_core::language::{Language, TypeScript};
    let mut crates: BTreeMap<CrateName, ParsedData> = BTreeMap::new();
    for &i in order {
        if let Some(d) = parse_named(&files[i], &format!("f{}.rs", i)) {
            let cn = d.crate_name.clone();
            *crates.entry(cn).or_default() += d;
        }
    }
    typeshare_core::reconcile::reconcile_aliases(&mut crates);
    let mut out: Vec<u8> = Vec::new();
    let mut nerr = 0;
    for (_, data) in crates {
        nerr += data.errors.len();
        let mut lang = TypeScript { no_version_header: true, ..Default::default() };
        lang.generate_types(&mut out, &HashMap::new(), data).map_err(|e| e.to_string())?;
    }
    Ok((String::from_utf8(out).map_err(|e| e.to_string())?, nerr))
}

const CORPUS: [(&str, &str, bool); 10] = [
    ("AuthenticationRequest", "#[typeshare]\npub struct AuthenticationRequest { pub a: u32 }\n", true),
    ("AuthenticationResponse", "#[typeshare]\npub struct AuthenticationResponse { pub r: AuthenticationRequest }\n", true),
    ("Zed", "#[typeshare]\npub struct Zed { pub a: u32 }\n", true),
    ("Kind", "#[typeshare]\npub enum Kind { A, B }\n", true),
    ("KindOfThingWithAVeryLongSharedPrefixOne", "#[typeshare]\npub enum KindOfThingWithAVeryLongSharedPrefixOne { A }\n", true),
    ("KindOfThingWithAVeryLongSharedPrefixTwo", "#[typeshare]\npub enum KindOfThingWithAVeryLongSharedPrefixTwo { B }\n", true),
    ("Al", "#[typeshare]\npub type Al = Vec<Zed>;\n", true),
    ("ALPHA", "#[typeshare]\npub const ALPHA: u32 = 1;\n", true),
    ("BETA", "#[typeshare]\npub const BETA: u32 = 2;\n", true),
    ("Unrepresentable", "#[typeshare]\npub struct Unrepresentable { pub x: u64 }\n", false),
];
const NFILES: usize = 3;
/// distribution k assigns corpus item i to file ((i * (k + 1) + k) % NFILES), reversed inside the file for odd k
fn distribution(k: usize) -> Vec<String> {
    let mut files = vec![String::new(); NFILES];
    let idx: Vec<usize> = if k % 2 == 1 { (0..CORPUS.len()).rev().collect() } else { (0..CORPUS.len()).collect() };
    for i in idx { files[(i * (k + 1) + k) % NFILES].push_str(CORPUS[i].1); }
    files
}
fn defs(out: &str, name: &str) -> usize {
    ["interface ", "enum ", "type ", "const "].iter().map(|kw| out.matches(&format!("export {}{} ", kw, name)).count() + out.matches(&format!("export {}{}:", kw, name)).count()).sum()
}
/// C06 + C03 on one (distribution, arrival order): -> Some(description) when violated
fn merge_case(k: usize, order: &[usize]) -> Option<String> {
    let files = distribution(k);
    let base = match fold_mem(&files, &[0, 1, 2]) { Ok(b) => b, Err(e) => return Some(format!("generation failed: {}", e)) };
    let f2 = files.clone(); let o2 = order.to_vec();
    let got = match panic::catch_unwind(move || fold_mem(&f2, &o2)) { Ok(Ok(g)) => g, Ok(Err(e)) => return Some(format!("generation failed: {}", e)), Err(_) => return Some("panicked".into()) };
    for (name, _, good) in CORPUS.iter() {
        let n = defs(&got.0, name);
        if *good && n != 1 { return Some(format!("definition {} appears {} times in the output (C03/C11: exactly once)", name, n)); }
        if !*good && n != 0 { return Some(format!("unsupported item {} was generated", name)); }
    }
    if got.1 != 1 { return Some(format!("{} parse errors recorded after the merge, expected exactly 1 (the unsupported item must be reported, not silently omitted)", got.1)); }
    if got.0 != base.0 { return Some(format!("output bytes differ from arrival order [0,1,2] (C06): {:?} vs {:?}", &got.0.chars().take(200).collect::<String>(), &base.0.chars().take(200).collect::<String>())); }
    None
}

fn permutations(n: usize) -> Vec<Vec<usize>> {
    if n == 0 { return vec![vec![]]; }
    let mut out = vec![];
    for p in permutations(n - 1) { for pos in 0..n { let mut q = p.clone(); q.insert(pos, n - 1); out.push(q); } }
    out
}

fn main() {
    panic::set_hook(Box::new(|_| {}));
    let a: Vec<String> = std::env::args().collect();
    match a.get(1).map(|s| s.as_str()) {
        Some("rename") => {
            // rename <rule> <field|variant> <ident>  -> exit 1 when typeshare and serde disagree (or typeshare panics)
            let (t, s) = (typeshare_rename(&a[2], &a[3], &a[4]), serde_rename(&a[2], &a[3], &a[4]));
            println!("{{\"rule\": {:?}, \"position\": {:?}, \"ident\": {:?}, \"typeshare\": {:?}, \"serde\": {:?}}}", a[2], a[3], a[4], t, s);
            let bad = match (&t, &s) { (Ok(x), Ok(y)) => x != y, (Err(_), _) => true, (Ok(_), Err(_)) => false };
            std::process::exit(if bad { 1 } else { 0 });
        }
        Some("merge") => {
            // merge <file.rs>...  -> exit 1 when two arrival orders of the same per-file results give different output bytes
            let files: Vec<(String, String)> = a[2..].iter().map(|p| (p.clone(), std::fs::read_to_string(p).expect("read"))).collect();
            let base = panic::catch_unwind(|| fold_and_generate(&files, &(0..files.len()).collect::<Vec<_>>()));
            let base = match base { Ok(Ok(b)) => b, _ => { println!("{{\"error\": \"generation failed or panicked\"}}"); std::process::exit(2); } };
            for p in permutations(files.len()) {
                let f2 = files.clone(); let p2 = p.clone();
                let other = panic::catch_unwind(move || fold_and_generate(&f2, &p2));
                match other {
                    Ok(Ok(o)) if o == base => {}
                    _ => { println!("{{\"files\": {:?}, \"order_a\": {:?}, \"order_b\": {:?}, \"differs\": true}}", a[2..].to_vec(), (0..files.len()).collect::<Vec<_>>(), p); std::process::exit(1); }
                }
            }
            println!("{{\"files\": {:?}, \"orders\": {}, \"differs\": false}}", a[2..].to_vec(), permutations(files.len()).len());
            std::process::exit(0);
        }
        Some("merge-search") | Some("merge-check") => {
            let report = |k: usize, p: &Vec<usize>, m: String| { println!("WITNESS {{\"input\": {{\"distribution\": {}, \"order\": {:?}}}, \"fails\": {:?}}}", k, p, m); std::process::exit(1); };
            if a[1] == "merge-check" {
                let k: usize = a[2].parse().unwrap();
                let p: Vec<usize> = a[3].split(',').map(|x| x.trim().parse().unwrap()).collect();
                if let Some(m) = merge_case(k, &p) { report(k, &p, m); }
                println!("input passes"); std::process::exit(0);
            }
            let mut tried = 0;
            for k in 0..6 { for p in permutations(NFILES) { tried += 1; if let Some(m) = merge_case(k, &p) { report(k, &p, m); } } }
            println!("no failing input among {} (distribution of 10 items over 3 files, arrival order) pairs", tried);
            std::process::exit(0);
        }
        Some("codable") => {
            // codable : run Swift::post_generation twice into a fresh folder; exit 1 when the second (unchanged) run touches Codable.swift
            use typeshare_core::language::{Language, Swift};
            use std::sync::atomic::AtomicBool;
            let dir = std::env::temp_dir().join(format!("verif-replay-codable-{}", std::process::id()));
            let _ = std::fs::remove_dir_all(&dir);
            std::fs::create_dir_all(&dir).unwrap();
            let mk = || Swift { multi_file: true, should_emit_codable_void: AtomicBool::new(true), ..Default::default() };
            mk().post_generation(&dir.to_string_lossy()).unwrap();
            let f = dir.join("Codable.swift");
            let (m1, c1) = (std::fs::metadata(&f).unwrap().modified().unwrap(), std::fs::read(&f).unwrap());
            std::thread::sleep(std::time::Duration::from_millis(60));
            mk().post_generation(&dir.to_string_lossy()).unwrap();
            let (m2, c2) = (std::fs::metadata(&f).unwrap().modified().unwrap(), std::fs::read(&f).unwrap());
            let _ = std::fs::remove_dir_all(&dir);
            println!("{{\"file\": \"Codable.swift\", \"content_identical\": {}, \"mtime_preserved\": {}}}", c1 == c2, m1 == m2);
            std::process::exit(if c1 == c2 && m1 == m2 { 0 } else { 1 });
        }
        _ => { eprintln!("usage: verif-replay rename <rule> <field|variant> <ident>"); std::process::exit(2); }
    }
}
